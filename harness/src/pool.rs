//! Parent side of the E3 worker processes: a pool of `sv worker` children fed one case at a time.
use crate::stress::{SResult, StressCase};
use std::io::{BufRead, BufReader, Write};
use std::process::{Child, Command, Stdio};
use std::sync::atomic::{AtomicBool, AtomicUsize, Ordering};
use std::sync::mpsc;
use std::time::Duration;

struct Worker {
    child: Child,
    rx: mpsc::Receiver<String>,
}

fn spawn_worker() -> Worker {
    let exe = std::env::current_exe().expect("current exe");
    let mut child = Command::new(exe)
        .arg("worker")
        .stdin(Stdio::piped())
        .stdout(Stdio::piped())
        .stderr(Stdio::null())
        .spawn()
        .expect("spawn worker");
    let out = child.stdout.take().unwrap();
    let (tx, rx) = mpsc::channel();
    std::thread::spawn(move || {
        let r = BufReader::new(out);
        for line in r.lines() {
            match line {
                Ok(l) => {
                    if tx.send(l).is_err() {
                        break;
                    }
                }
                Err(_) => break,
            }
        }
    });
    Worker { child, rx }
}

fn run_one(w: &mut Option<Worker>, case: &StressCase, timeout: Duration) -> SResult {
    if w.is_none() {
        *w = Some(spawn_worker());
    }
    let line = serde_json::to_string(case).unwrap();
    let wk = w.as_mut().unwrap();
    let ok = {
        let stdin = wk.child.stdin.as_mut().unwrap();
        writeln!(stdin, "{}", line).and_then(|_| stdin.flush()).is_ok()
    };
    if !ok {
        let _ = wk.child.kill();
        let _ = wk.child.wait();
        *w = None;
        return SResult { status: "harness".into(), msg: "worker process went away before the case could be sent".into(), ..Default::default() };
    }
    match wk.rx.recv_timeout(timeout) {
        Ok(l) => {
            let r: SResult = serde_json::from_str(&l).unwrap_or(SResult { status: "harness".into(), msg: format!("unparsable worker answer: {}", l), ..Default::default() });
            if r.status == "hang" || r.status == "busy" {
                let _ = wk.child.wait();
                *w = None;
            }
            r
        }
        Err(mpsc::RecvTimeoutError::Timeout) => {
            let _ = wk.child.kill();
            let _ = wk.child.wait();
            *w = None;
            SResult { status: "timeout".into(), msg: format!("worker gave no answer within {:?} (no state evidence: inconclusive)", timeout), ..Default::default() }
        }
        Err(mpsc::RecvTimeoutError::Disconnected) => {
            let st = wk.child.wait().ok();
            *w = None;
            SResult { status: "crash".into(), msg: format!("worker process died without an answer (status {:?})", st), ..Default::default() }
        }
    }
}

/// Run every case; `on_result(index, result)` returns false to stop early.
pub fn run_cases(cases: &[StressCase], procs: usize, timeout: Duration, mut on_result: impl FnMut(usize, SResult) -> bool) {
    let next = AtomicUsize::new(0);
    let stop = AtomicBool::new(false);
    let (tx, rx) = mpsc::channel::<(usize, SResult)>();
    std::thread::scope(|s| {
        for _ in 0..procs.min(cases.len().max(1)) {
            let tx = tx.clone();
            let next = &next;
            let stop = &stop;
            s.spawn(move || {
                let mut w: Option<Worker> = None;
                loop {
                    if stop.load(Ordering::SeqCst) {
                        break;
                    }
                    let i = next.fetch_add(1, Ordering::SeqCst);
                    if i >= cases.len() {
                        break;
                    }
                    let r = run_one(&mut w, &cases[i], timeout);
                    if tx.send((i, r)).is_err() {
                        break;
                    }
                }
                if let Some(mut wk) = w {
                    drop(wk.child.stdin.take());
                    let _ = wk.child.wait();
                }
            });
        }
        drop(tx);
        for (i, r) in rx.iter() {
            if !on_result(i, r) {
                stop.store(true, Ordering::SeqCst);
            }
        }
    });
}

/// Re-run one case `times` times; returns the results.
pub fn rerun(case: &StressCase, times: usize, procs: usize) -> Vec<SResult> {
    let cases: Vec<StressCase> = (0..times)
        .map(|i| {
            let mut c = case.clone();
            // vary the perturbation, keep the scripts
            c.perturb = c.perturb.wrapping_add(i as u64 * 7919);
            c
        })
        .collect();
    let mut out = Vec::new();
    run_cases(&cases, procs, Duration::from_secs(60), |_, r| {
        out.push(r);
        true
    });
    out
}
