//! Virtual wall clock by link-time interposition of `clock_gettime`.
//!
//! std's `SystemTime::now()` calls libc `clock_gettime(CLOCK_REALTIME)`. This binary defines the
//! symbol itself, so the static link binds std to it. For CLOCK_REALTIME it serves a thread-local
//! virtual time when one is set, else a process-global virtual time when one is set, else the real
//! clock (raw syscall). Every other clock id (CLOCK_MONOTONIC for `Instant`, timers, parking_lot)
//! always goes to the raw syscall, so sleeping/ticking is unaffected.
use std::cell::Cell;
use std::sync::atomic::{AtomicI64, Ordering};

thread_local! {
    static TL_NOW_NS: Cell<i64> = const { Cell::new(-1) };
}
static GLOBAL_NOW_NS: AtomicI64 = AtomicI64::new(-1);

#[no_mangle]
pub unsafe extern "C" fn clock_gettime(clk: libc::clockid_t, ts: *mut libc::timespec) -> libc::c_int {
    if clk == libc::CLOCK_REALTIME && !ts.is_null() {
        let tl = TL_NOW_NS.try_with(|c| c.get()).unwrap_or(-1);
        let v = if tl >= 0 { tl } else { GLOBAL_NOW_NS.load(Ordering::SeqCst) };
        if v >= 0 {
            (*ts).tv_sec = (v / 1_000_000_000) as libc::time_t;
            (*ts).tv_nsec = (v % 1_000_000_000) as _;
            return 0;
        }
    }
    libc::syscall(libc::SYS_clock_gettime, clk, ts) as libc::c_int
}

/// Set (Some) or clear (None) the calling thread's virtual time in ns since the epoch.
pub fn set_thread(ns: Option<i64>) {
    TL_NOW_NS.with(|c| c.set(ns.unwrap_or(-1)));
}

pub fn thread_now() -> i64 {
    TL_NOW_NS.with(|c| c.get())
}

/// Set or clear the process-wide virtual time.
pub fn set_global(ns: Option<i64>) {
    GLOBAL_NOW_NS.store(ns.unwrap_or(-1), Ordering::SeqCst);
}

pub fn global_now() -> i64 {
    GLOBAL_NOW_NS.load(Ordering::SeqCst)
}

pub fn advance_global(dt_ns: i64) -> i64 {
    GLOBAL_NOW_NS.fetch_add(dt_ns, Ordering::SeqCst) + dt_ns
}

/// Self-test: the interposition is in effect for std::time::SystemTime.
pub fn self_test() -> bool {
    let before = thread_now();
    set_thread(Some(1_234_567_000_000_123));
    let t = std::time::SystemTime::now()
        .duration_since(std::time::UNIX_EPOCH)
        .unwrap();
    set_thread(if before >= 0 { Some(before) } else { None });
    t.as_nanos() == 1_234_567_000_000_123u128
}
