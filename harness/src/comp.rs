//! E4: component-level generators — count-min sketch / TinyLFU (C13), bloom filter (C14),
//! the policy's admission rule (C07), key builders (C18 part A), Histogram (C17 part).
use std::time::Duration;
use crate::common::*;
use proptest::prelude::*;
use serde::{Deserialize, Serialize};
use std::collections::{BTreeMap, BTreeSet, HashMap};
use std::panic::{catch_unwind, AssertUnwindSafe};
use stretto::verif as sv;

fn caught<T>(f: impl FnOnce() -> T) -> Result<T, String> {
    let _ = panics_take();
    catch_unwind(AssertUnwindSafe(f)).map_err(|_| {
        let p = panics_take().join(" | ");
        if p.contains(" at src/") {
            format!("HARNESS panic in the harness itself: {}", p)
        } else {
            format!("panic: {}", p)
        }
    })
}

/// structured 64-bit hash families
fn hash_palette() -> BoxedStrategy<Vec<u64>> {
    let fam = prop_oneof![
        // random
        proptest::collection::vec(any::<u64>(), 1..8),
        // small integers
        proptest::collection::vec(0u64..32, 1..8),
        // differ only in high bits
        (any::<u32>(), proptest::collection::vec(any::<u32>(), 1..8)).prop_map(|(lo, his)| his.into_iter().map(|h| ((h as u64) << 32) | lo as u64).collect()),
        // differ only in low bits
        (any::<u32>(), proptest::collection::vec(any::<u16>(), 1..8)).prop_map(|(hi, los)| los.into_iter().map(|l| ((hi as u64) << 32) | l as u64).collect()),
        // equal modulo a power of two
        (0u32..20, any::<u16>(), proptest::collection::vec(1u64..64, 1..8)).prop_map(|(sh, base, ms)| ms.into_iter().map(|m| (m << sh).wrapping_add(base as u64)).collect()),
        // extremes
        Just(vec![0u64, u64::MAX, 1, u64::MAX - 1, 1 << 63]),
    ];
    fam.prop_map(|mut v: Vec<u64>| {
        v.sort_unstable();
        v.dedup();
        v
    })
    .boxed()
}

fn widths() -> BoxedStrategy<u64> {
    prop_oneof![
        6 => 1u64..=70,
        2 => proptest::sample::select(vec![100u64, 127, 128, 129, 1000, 4096]),
    ]
    .boxed()
}

// ------------------------------------------------------------------------------------------
// C13 count-min sketch
// ------------------------------------------------------------------------------------------

#[derive(Clone, Debug, Serialize, Deserialize, Hash, PartialEq, Eq)]
pub enum SkOp {
    Inc(u8),
    IncMany(u8, u8),
    Reset,
    Clear,
}

#[derive(Clone, Debug, Serialize, Deserialize, Hash, PartialEq, Eq)]
pub struct SketchCase {
    pub width: u64,
    pub hashes: Vec<u64>,
    pub ops: Vec<SkOp>,
    /// virtual second at construction (the sketch seeds its rows from the clock)
    pub epoch_s: u32,
}

pub fn sketch_strategy() -> BoxedStrategy<SketchCase> {
    let op = prop_oneof![
        10 => any::<u8>().prop_map(SkOp::Inc),
        3 => (any::<u8>(), 2u8..20).prop_map(|(h, n)| SkOp::IncMany(h, n)),
        2 => Just(SkOp::Reset),
        1 => Just(SkOp::Clear),
    ];
    (widths(), hash_palette(), proptest::collection::vec(op, 1..60), 0u32..1000)
        .prop_map(|(width, hashes, ops, epoch_s)| SketchCase { width, hashes, ops, epoch_s })
        .boxed()
}

pub struct CompFeats {
    pub nontrivial: bool,
    pub classes: Vec<&'static str>,
}

pub fn run_sketch(c: &SketchCase) -> Result<CompFeats, String> {
    crate::clock::set_thread(Some(T0 + c.epoch_s as i64 * NS));
    let r = caught(|| run_sketch_inner(c));
    crate::clock::set_thread(None);
    match r {
        Ok(r) => r,
        Err(p) => Err(format!("[sketch_panic] width {}: {}", c.width, p)),
    }
}

fn run_sketch_inner(c: &SketchCase) -> Result<CompFeats, String> {
    let mut sk = sv::Sketch::new(c.width).map_err(|e| format!("[sketch_new] width {} rejected: {}", c.width, e))?;
    let hs = &c.hashes;
    let n = hs.len();
    let mut ideal: Vec<u32> = vec![0; n];
    let mut feats = CompFeats { nontrivial: false, classes: vec![] };
    let est_all = |sk: &sv::Sketch| -> Vec<i64> { hs.iter().map(|h| sk.estimate(*h)).collect() };
    // fresh: everything zero, also never-recorded hashes
    for (i, e) in est_all(&sk).iter().enumerate() {
        if *e != 0 {
            return Err(format!("[fresh_zero] fresh sketch (width {}) estimates {} for hash {:#x}", c.width, e, hs[i]));
        }
    }
    let mut saturated = false;
    let mut shared = false;
    for (step, op) in c.ops.iter().enumerate() {
        match op {
            SkOp::Inc(_) | SkOp::IncMany(..) => {
                let (hi, times) = match op {
                    SkOp::Inc(h) => (*h as usize % n, 1u32),
                    SkOp::IncMany(h, t) => (*h as usize % n, *t as u32),
                    _ => unreachable!(),
                };
                for _ in 0..times {
                    let before = est_all(&sk);
                    sk.increment(hs[hi]);
                    ideal[hi] = (ideal[hi] + 1).min(15);
                    let after = est_all(&sk);
                    for j in 0..n {
                        if after[j] < before[j] {
                            return Err(format!("[inc_monotone] step {}: recording {:#x} lowered the estimate of {:#x} from {} to {}", step, hs[hi], hs[j], before[j], after[j]));
                        }
                        if after[j] > before[j] + 1 {
                            return Err(format!("[inc_by_one] step {}: recording {:#x} once raised the estimate of {:#x} from {} to {}", step, hs[hi], hs[j], before[j], after[j]));
                        }
                        if j != hi && after[j] > before[j] {
                            shared = true;
                        }
                    }
                    let want = (before[hi] + 1).min(15);
                    if after[hi] != want {
                        return Err(format!("[inc_self] step {}: recording {:#x} changed its estimate from {} to {}, expected {}", step, hs[hi], before[hi], after[hi], want));
                    }
                }
                if ideal[hi] >= 15 {
                    saturated = true;
                }
            }
            SkOp::Reset => {
                let before = est_all(&sk);
                sk.reset();
                let after = est_all(&sk);
                for j in 0..n {
                    if after[j] != before[j] / 2 {
                        return Err(format!("[reset_halves] step {}: reset changed the estimate of {:#x} from {} to {}, expected {}", step, hs[j], before[j], after[j], before[j] / 2));
                    }
                    ideal[j] /= 2;
                }
                feats.classes.push("reset");
            }
            SkOp::Clear => {
                sk.clear();
                for j in 0..n {
                    ideal[j] = 0;
                }
                let after = est_all(&sk);
                if let Some(j) = (0..n).find(|j| after[*j] != 0) {
                    return Err(format!("[clear_zero] step {}: after clear the estimate of {:#x} is {}", step, hs[j], after[j]));
                }
                feats.classes.push("clear");
            }
        }
        let est = est_all(&sk);
        for j in 0..n {
            if est[j] < ideal[j] as i64 {
                return Err(format!("[never_undercount] step {}: width {}: {:#x} was recorded {} times (halvings applied) but estimates {}", step, c.width, hs[j], ideal[j], est[j]));
            }
            if !(0..=15).contains(&est[j]) {
                return Err(format!("[saturate] step {}: estimate {} of {:#x} outside 0..=15", step, est[j], hs[j]));
            }
        }
    }
    if saturated {
        feats.classes.push("saturated");
    }
    if shared {
        feats.classes.push("shared_counter");
    }
    if c.width < 8 {
        feats.classes.push("width<8");
    }
    feats.nontrivial = saturated || shared || feats.classes.contains(&"reset");
    Ok(feats)
}

// ------------------------------------------------------------------------------------------
// C13 TinyLFU
// ------------------------------------------------------------------------------------------

#[derive(Clone, Debug, Serialize, Deserialize, Hash, PartialEq, Eq)]
pub enum TlOp {
    Inc(u8),
    IncMany(u8, u8),
    Batch(Vec<u8>),
    Clear,
}

#[derive(Clone, Debug, Serialize, Deserialize, Hash, PartialEq, Eq)]
pub struct TinyCase {
    pub num_counters: usize,
    pub hashes: Vec<u64>,
    pub ops: Vec<TlOp>,
    pub epoch_s: u32,
}

pub fn tiny_strategy() -> BoxedStrategy<TinyCase> {
    let op = prop_oneof![
        10 => any::<u8>().prop_map(TlOp::Inc),
        4 => (any::<u8>(), 2u8..24).prop_map(|(h, n)| TlOp::IncMany(h, n)),
        2 => proptest::collection::vec(any::<u8>(), 0..12).prop_map(TlOp::Batch),
        1 => Just(TlOp::Clear),
    ];
    (widths(), hash_palette(), proptest::collection::vec(op, 1..60), 0u32..1000)
        .prop_map(|(w, hashes, ops, epoch_s)| TinyCase { num_counters: w as usize, hashes, ops, epoch_s })
        .boxed()
}

pub fn run_tiny(c: &TinyCase) -> Result<CompFeats, String> {
    crate::clock::set_thread(Some(T0 + c.epoch_s as i64 * NS));
    let r = caught(|| run_tiny_inner(c));
    crate::clock::set_thread(None);
    match r {
        Ok(r) => r,
        Err(p) => Err(format!("[tinylfu_panic] num_counters {}: {}", c.num_counters, p)),
    }
}

fn run_tiny_inner(c: &TinyCase) -> Result<CompFeats, String> {
    let mut tl = sv::TinyLfu::new(c.num_counters).map_err(|e| format!("[tinylfu_new] num_counters {} rejected: {}", c.num_counters, e))?;
    let hs = &c.hashes;
    let n = hs.len();
    // never-recorded probe hashes
    let probes: Vec<u64> = (0..4u64).map(|i| 0x5151_0000_0000_0000u64 ^ i.wrapping_mul(0x9E37_79B9_7F4A_7C15)).filter(|p| !hs.contains(p)).collect();
    let mut ideal: Vec<u32> = vec![0; n];
    let mut w = 0usize;
    let mut feats = CompFeats { nontrivial: false, classes: vec![] };
    let est_all = |tl: &sv::TinyLfu| -> Vec<i64> { hs.iter().map(|h| tl.estimate(*h)).collect() };
    for e in est_all(&tl).iter().chain(probes.iter().map(|p| tl.estimate(*p)).collect::<Vec<_>>().iter()) {
        if *e != 0 {
            return Err(format!("[fresh_zero] fresh TinyLFU (num_counters {}) estimates {}", c.num_counters, e));
        }
    }
    let mut crossed = false;
    let mut saturated = false;
    let mut seq: Vec<usize> = Vec::new();
    for (step, op) in c.ops.iter().enumerate() {
        seq.clear();
        let mut batch: Option<Vec<u64>> = None;
        match op {
            TlOp::Inc(h) => seq.push(*h as usize % n),
            TlOp::IncMany(h, t) => {
                for _ in 0..*t {
                    seq.push(*h as usize % n)
                }
            }
            TlOp::Batch(v) => {
                for h in v {
                    seq.push(*h as usize % n)
                }
                batch = Some(seq.iter().map(|i| hs[*i]).collect());
            }
            TlOp::Clear => {
                tl.clear();
                w = 0;
                for j in 0..n {
                    ideal[j] = 0;
                }
                let after = est_all(&tl);
                if let Some(j) = (0..n).find(|j| after[*j] != 0) {
                    return Err(format!("[clear_zero] step {}: after clear the estimate of {:#x} is {}", step, hs[j], after[j]));
                }
                if tl.window().0 != 0 {
                    return Err(format!("[clear_window] step {}: clear did not restart the aging window", step));
                }
                feats.classes.push("clear");
            }
        }
        if let Some(b) = batch {
            // a batch is the same as its elements one at a time; model it that way
            let before = est_all(&tl);
            tl.increments(b);
            let mut reset_inside = false;
            for hi in seq.iter() {
                ideal[*hi] = (ideal[*hi] + 1).min(16);
                w += 1;
                if w >= c.num_counters {
                    w = 0;
                    for j in 0..n {
                        ideal[j] = 0;
                    }
                    crossed = true;
                    reset_inside = true;
                }
            }
            let after = est_all(&tl);
            if !reset_inside {
                for j in 0..n {
                    if after[j] < before[j] {
                        return Err(format!("[inc_monotone] step {}: a batch without aging lowered the estimate of {:#x} from {} to {}", step, hs[j], before[j], after[j]));
                    }
                }
            }
        } else {
            for hi in seq.iter() {
                let before = est_all(&tl);
                tl.increment(hs[*hi]);
                let after = est_all(&tl);
                w += 1;
                if w >= c.num_counters {
                    // aging: counters halved, doorkeeper emptied
                    w = 0;
                    crossed = true;
                    // state just before the reset: the recorded key counted once more
                    for j in 0..n {
                        // before = sketch + doorkeeper bit; after = floor(sketch/2). The access that
                        // triggers the aging is recorded first: +1 for the recorded key, and up to +1
                        // for any key sharing a counter with it.
                        let (b_lo, b_hi) = if j == *hi { ((before[j] + 1).min(16), (before[j] + 1).min(16)) } else { (before[j], (before[j] + 1).min(16)) };
                        let b = b_hi;
                        let hi_bound = b_hi / 2;
                        let lo_bound = if b_lo == 0 { 0 } else { (b_lo - 1) / 2 };
                        if after[j] > hi_bound || after[j] < lo_bound {
                            return Err(format!(
                                "[aging_halves] step {}: num_counters {}: the {}th access since the last reset must halve: estimate of {:#x} went from {} to {}, allowed {}..={}",
                                step, c.num_counters, c.num_counters, hs[j], b, after[j], lo_bound, hi_bound
                            ));
                        }
                        ideal[j] = 0;
                    }
                    // doorkeeper emptied: a key seen exactly once before (estimate 1) is now 0 — covered by the bound above (b=1 -> 0)
                } else {
                    ideal[*hi] = (ideal[*hi] + 1).min(16);
                    for j in 0..n {
                        if after[j] < before[j] {
                            return Err(format!(
                                "[inc_monotone] step {}: num_counters {}: recording {:#x} ({} of {} accesses in this window) lowered the estimate of {:#x} from {} to {}",
                                step, c.num_counters, hs[*hi], w, c.num_counters, hs[j], before[j], after[j]
                            ));
                        }
                        if after[j] > before[j] + 1 {
                            return Err(format!("[inc_by_one] step {}: one access raised the estimate of {:#x} from {} to {}", step, hs[j], before[j], after[j]));
                        }
                    }
                }
                if ideal[*hi] >= 16 {
                    saturated = true;
                }
            }
        }
        let (tw, tn) = tl.window();
        if tn != c.num_counters {
            return Err(format!("[window_len] window length {} != num_counters {}", tn, c.num_counters));
        }
        if tw != w {
            return Err(format!("[window_pos] step {}: {} accesses recorded since the last reset, the estimator counts {}", step, w, tw));
        }
        let est = est_all(&tl);
        for j in 0..n {
            if est[j] < ideal[j] as i64 {
                return Err(format!(
                    "[never_undercount] step {}: num_counters {}: {:#x} was recorded {} times since the last aging reset but estimates {}",
                    step, c.num_counters, hs[j], ideal[j], est[j]
                ));
            }
            if !(0..=16).contains(&est[j]) {
                return Err(format!("[saturate] step {}: estimate {} of {:#x} outside 0..=16", step, est[j], hs[j]));
            }
        }
    }
    if crossed {
        feats.classes.push("window_crossed");
    }
    if saturated {
        feats.classes.push("saturated");
    }
    if c.num_counters < 8 {
        feats.classes.push("num_counters<8");
    }
    feats.nontrivial = crossed || saturated;
    Ok(feats)
}

// ------------------------------------------------------------------------------------------
// C14 bloom
// ------------------------------------------------------------------------------------------

#[derive(Clone, Debug, Serialize, Deserialize, Hash, PartialEq, Eq)]
pub enum BlOp {
    Add(u8),
    ContainsOrAdd(u8),
    Reset,
    Clear,
}

#[derive(Clone, Debug, Serialize, Deserialize, Hash, PartialEq, Eq)]
pub struct BloomCase {
    pub cap: usize,
    /// false-positive rate in 1/1000
    pub rate_milli: u32,
    pub hashes: Vec<u64>,
    pub ops: Vec<BlOp>,
    /// statistical part: seed for n random hashes (0 = skip)
    pub fp_seed: u64,
    /// structured false-positive measurement: ids placed exactly in the bits the filter uses as
    /// its first hash (even ids added, odd ids probed)
    #[serde(default)]
    pub fp_aligned: bool,
}

pub fn bloom_strategy() -> BoxedStrategy<BloomCase> {
    let cap = prop_oneof![
        3000 => 1usize..=70,
        2000 => proptest::sample::select(vec![1usize, 2, 63, 64, 65, 127, 128, 129, 255, 256, 257, 511, 512, 513, 1000, 1023, 1024, 1025, 4096, 5000]),
        1000 => 50usize..5000,
        // (rare, a second or so each: filters for hundreds of thousands to millions of entries)
        3 => proptest::sample::select(vec![300_000usize, 1_000_000, 2_500_000]),
    ];
    let op = prop_oneof![
        6 => any::<u8>().prop_map(BlOp::Add),
        4 => any::<u8>().prop_map(BlOp::ContainsOrAdd),
        1 => Just(BlOp::Reset),
        1 => Just(BlOp::Clear),
    ];
    let hashes = prop_oneof![
        hash_palette(),
        proptest::collection::vec(any::<u64>(), 8..40),
    ];
    (
        cap,
        prop_oneof![6 => proptest::sample::select(vec![1u32, 10, 50, 100, 300]), 2 => proptest::sample::select(vec![500u32, 708, 720, 900, 999]), 1 => proptest::sample::select(vec![1000u32, 2000, 4000, 7000])],
        hashes,
        proptest::collection::vec(op, 1..80),
        prop_oneof![2 => Just(0u64), 1 => 1u64..u64::MAX],
        proptest::bool::weighted(0.3),
    )
        .prop_map(|(cap, rate_milli, hashes, ops, fp_seed, fp_aligned)| BloomCase { cap, rate_milli, hashes, ops, fp_seed, fp_aligned })
        .boxed()
}

fn splitmix(x: &mut u64) -> u64 {
    *x = x.wrapping_add(0x9E37_79B9_7F4A_7C15);
    let mut z = *x;
    z = (z ^ (z >> 30)).wrapping_mul(0xBF58_476D_1CE4_E5B9);
    z = (z ^ (z >> 27)).wrapping_mul(0x94D0_49BB_1331_11EB);
    z ^ (z >> 31)
}

pub fn run_bloom(c: &BloomCase) -> Result<CompFeats, String> {
    match caught(|| run_bloom_inner(c)) {
        Ok(r) => r,
        Err(p) => Err(format!("[bloom_panic] cap {} rate {}: {}", c.cap, c.rate_milli, p)),
    }
}

fn run_bloom_inner(c: &BloomCase) -> Result<CompFeats, String> {
    let rate = c.rate_milli as f64 / 1000.0;
    let mut feats = CompFeats { nontrivial: false, classes: vec![] };
    let mut bl = sv::Bloom::new(c.cap, rate);
    let hs = &c.hashes;
    let n = hs.len();
    let mut added: BTreeSet<u64> = BTreeSet::new();
    for h in hs {
        if bl.contains(*h) {
            return Err(format!("[fresh_empty] fresh filter (cap {}, rate {}) reports {:#x} present", c.cap, rate, h));
        }
    }
    let mut structured_ops = 0;
    for (step, op) in c.ops.iter().enumerate() {
        match op {
            BlOp::Add(i) => {
                let h = hs[*i as usize % n];
                bl.add(h);
                added.insert(h);
                structured_ops += 1;
            }
            BlOp::ContainsOrAdd(i) => {
                let h = hs[*i as usize % n];
                let was = bl.contains(h);
                let r = bl.contains_or_add(h);
                if r == was {
                    return Err(format!("[contains_or_add] step {}: contains({:#x}) = {} but contains_or_add returned {} (true means it was added)", step, h, was, r));
                }
                if added.contains(&h) && r {
                    return Err(format!("[false_negative] step {}: {:#x} was added before, contains_or_add claims to have added it anew", step, h));
                }
                added.insert(h);
                structured_ops += 1;
            }
            BlOp::Reset | BlOp::Clear => {
                if matches!(op, BlOp::Reset) {
                    bl.reset()
                } else {
                    bl.clear()
                }
                for h in hs.iter() {
                    if bl.contains(*h) {
                        return Err(format!("[reset_empties] step {}: after reset/clear {:#x} is still reported present", step, h));
                    }
                }
                added.clear();
                feats.classes.push("reset");
            }
        }
        for h in added.iter() {
            if !bl.contains(*h) {
                return Err(format!("[false_negative] step {}: cap {} rate {}: {:#x} was added since the last reset and is reported absent", step, c.cap, rate, h));
            }
        }
    }
    if structured_ops > 0 {
        feats.classes.push("membership");
        feats.nontrivial = true;
    }
    // false-positive bound for uniformly random hashes
    // (a rate of 1 or more selects the constructor's other form: `cap` bits and `rate` probe locations)
    if c.fp_seed != 0 && c.cap >= 50 && rate < 1.0 {
        let mut bl = sv::Bloom::new(c.cap, rate);
        let mut s = c.fp_seed;
        let mut members = std::collections::HashSet::new();
        if c.cap > 100_000 {
            // large filters: the members are the first `cap` values of the sequence (distinct but for
            // a negligible chance), every 997th is re-checked, the probes are the values after them
            let s0 = s;
            for _ in 0..c.cap {
                bl.add(splitmix(&mut s));
            }
            let mut s2 = s0;
            for i in 0..c.cap {
                let h = splitmix(&mut s2);
                if i % 997 == 0 && !bl.contains(h) {
                    return Err(format!("[false_negative] cap {} rate {}: random hash {:#x} added and reported absent", c.cap, rate, h));
                }
            }
            feats.classes.push("large_capacity");
        } else {
            while members.len() < c.cap {
                let h = splitmix(&mut s);
                members.insert(h);
                bl.add(h);
            }
        }
        for h in members.iter() {
            if !bl.contains(*h) {
                return Err(format!("[false_negative] cap {} rate {}: random hash {:#x} added and reported absent", c.cap, rate, h));
            }
        }
        let m = 4000u32;
        let mut fp = 0u32;
        let mut probes = 0u32;
        while probes < m {
            let h = splitmix(&mut s);
            if members.contains(&h) {
                continue;
            }
            probes += 1;
            if bl.contains(h) {
                fp += 1;
            }
        }
        let pm = rate * m as f64;
        let bound = 4.0 * pm + 5.0 * pm.sqrt() + 8.0;
        if fp as f64 > bound {
            return Err(format!(
                "[false_positive_rate] filter for {} entries at target rate {}: after adding {} random hashes, {} of {} never-added random hashes are reported present (bound {:.0})",
                c.cap, rate, c.cap, fp, m, bound
            ));
        }
        feats.classes.push("fp_rate");
        feats.nontrivial = true;
    }
    // false-positive bound for hashes that differ only in the high bits the filter hashes on:
    // ids in the top log2(bits) bits, low bits zero; even ids are added, odd ids probed
    if c.fp_aligned && rate < 1.0 {
        let mut bl = sv::Bloom::new(c.cap, rate);
        let (bits, _locs) = bl.params();
        let e = 63 - bits.leading_zeros() as u64; // bits is a power of two
        if (1..=40).contains(&e) {
            let s = 64 - e;
            let n = (c.cap as u64).min(1u64 << (e - 1)).min(4000);
            for i in 0..n {
                bl.add((2 * i) << s);
            }
            for i in 0..n {
                if !bl.contains((2 * i) << s) {
                    return Err(format!("[false_negative] cap {} rate {}: {:#x} added and reported absent", c.cap, rate, (2 * i) << s));
                }
            }
            let mut fp = 0u64;
            for i in 0..n {
                if bl.contains((2 * i + 1) << s) {
                    fp += 1;
                }
            }
            let pm = rate * n as f64;
            let bound = 4.0 * pm + 5.0 * pm.sqrt() + 8.0;
            if fp as f64 > bound {
                return Err(format!(
                    "[false_positive_rate_high_bits] filter for {} entries at target rate {} ({} bits): after adding the {} hashes (2i) << {} , {} of the {} never-added hashes (2i+1) << {} are reported present (bound {:.0})",
                    c.cap, rate, bits, n, s, fp, n, s, bound
                ));
            }
            feats.classes.push("fp_high_bits");
            if n >= 8 {
                feats.nontrivial = true;
            }
        }
    }
    Ok(feats)
}

// ------------------------------------------------------------------------------------------
// C07 admission rule
// ------------------------------------------------------------------------------------------

#[derive(Clone, Debug, Serialize, Deserialize, Hash, PartialEq, Eq)]
pub struct PolicyCase {
    pub num_counters: usize,
    pub max_cost: i64,
    /// residents to install first: (key, cost)
    pub residents: Vec<(u64, i64)>,
    /// popularity shaping: batches of key indices into `keys()`
    pub batches: Vec<Vec<u8>>,
    /// in-place updates that may push the total over budget: (resident index, new cost)
    pub updates: Vec<(u8, i64)>,
    /// lowered / raised max cost before the add
    pub new_max: Option<i64>,
    pub incoming: (u64, i64),
    pub epoch_s: u32,
}

pub fn policy_strategy() -> BoxedStrategy<PolicyCase> {
    (
        proptest::sample::select(vec![4usize, 8, 16, 64, 256, 1000]),
        proptest::collection::vec((1u64..40, prop_oneof![5 => 1i64..12, 1 => Just(0i64)]), 0..12),
        proptest::collection::vec(proptest::collection::vec(any::<u8>(), 0..10), 0..12),
        proptest::collection::vec((any::<u8>(), 1i64..30), 0..3),
        proptest::option::weighted(0.2, 1i64..60),
        (1u64..48, 1i64..30),
        (0i64..20, 0u32..1000),
    )
        .prop_map(|(num_counters, mut residents, batches, updates, new_max, incoming, (slack, epoch_s))| {
            // distinct resident keys
            let mut seen = BTreeSet::new();
            residents.retain(|(k, _)| seen.insert(*k));
            let total: i64 = residents.iter().map(|(_, c)| *c).sum();
            // tight budget: everything installed fits, little slack
            let max_cost = (total + slack).max(1);
            PolicyCase { num_counters, max_cost, residents, batches, updates, new_max, incoming, epoch_s }
        })
        .boxed()
}

pub fn run_policy(c: &PolicyCase) -> Result<CompFeats, String> {
    crate::clock::set_thread(Some(T0 + c.epoch_s as i64 * NS));
    sv::evict_record(true);
    let r = caught(|| run_policy_inner(c));
    sv::evict_record(false);
    crate::clock::set_thread(None);
    match r {
        Ok(r) => r,
        Err(p) => Err(format!("[policy_panic] {}", p)),
    }
}

fn run_policy_inner(c: &PolicyCase) -> Result<CompFeats, String> {
    let mut feats = CompFeats { nontrivial: false, classes: vec![] };
    let p = sv::Policy::new(c.num_counters, c.max_cost, DetS::default()).map_err(|e| format!("policy rejected: {}", e))?;
    // install residents (always room by construction)
    for (k, cost) in c.residents.iter() {
        let (v, added) = p.add(*k, *cost);
        if !added || v.map(|v| !v.is_empty()).unwrap_or(false) {
            return Err(format!("[room_admits] installing key {} cost {} into a policy with room was refused or evicted something", k, cost));
        }
    }
    // shape popularity
    let mut keys: Vec<u64> = c.residents.iter().map(|(k, _)| *k).collect();
    keys.push(c.incoming.0);
    for b in c.batches.iter() {
        let batch: Vec<u64> = b.iter().map(|i| keys[*i as usize % keys.len()]).collect();
        let _ = p.push(batch);
        while p.step() {}
    }
    for (i, cost) in c.updates.iter() {
        if !c.residents.is_empty() {
            let k = c.residents[*i as usize % c.residents.len()].0;
            p.update(k, *cost);
        }
    }
    if let Some(m) = c.new_max {
        p.update_max_cost(m);
    }
    let (before, used, max) = p.costs();
    let bmap: BTreeMap<u64, i64> = before.iter().copied().collect();
    let (ik, ic) = c.incoming;
    let est: HashMap<u64, i64> = bmap.keys().chain(std::iter::once(&ik)).map(|k| (*k, p.estimate(*k))).collect();
    let inc = est[&ik];
    let _ = sv::evict_rounds_take();
    let (victims, added) = p.add(ik, ic);
    let rounds = sv::evict_rounds_take();
    let (after, used_after, _) = p.costs();
    let amap: BTreeMap<u64, i64> = after.iter().copied().collect();

    // trivial paths
    if ic > max {
        if added || victims.is_some() {
            return Err(format!("[oversize] item of cost {} > max_cost {} was admitted or evicted something", ic, max));
        }
        feats.classes.push("oversize");
        return Ok(feats);
    }
    if bmap.contains_key(&ik) {
        feats.classes.push("already_resident");
        if added {
            return Err(format!("[update_not_add] key {} is already charged, add must report an update (false)", ik));
        }
        return Ok(feats);
    }
    let room = max - (used + ic);
    if room >= 0 {
        feats.classes.push("room");
        if !added || victims.as_ref().map(|v| !v.is_empty()).unwrap_or(false) || !rounds.is_empty() {
            return Err(format!("[room_admits] used {} + cost {} <= max_cost {}: the key must be admitted and nothing evicted (added {}, victims {:?})", used, ic, max, added, victims));
        }
        if amap.len() != bmap.len() + 1 || amap.get(&ik) != Some(&ic) {
            return Err(format!("[room_admits] admission with room changed other charges: before {:?} after {:?}", bmap, amap));
        }
        return Ok(feats);
    }
    // no room
    feats.nontrivial = true;
    feats.classes.push("no_room");
    let victims = victims.unwrap_or_default();
    // distinct victims (the sample refill can repeat a key)
    let mut distinct: Vec<(u64, i64)> = Vec::new();
    for v in victims.iter() {
        if !distinct.iter().any(|d| d.0 == v.0) {
            distinct.push(*v);
        }
    }
    if distinct.len() > 1 {
        feats.classes.push("multi_victim");
    }
    if bmap.len() < 5 {
        feats.classes.push("fewer_than_5_residents");
    }
    if used > max {
        feats.classes.push("over_budget_start");
    }
    let min_all = bmap.keys().map(|k| est[k]).min();
    if let Some(m) = min_all {
        if bmap.keys().filter(|k| est[*k] == m).count() > 1 || m == inc {
            feats.classes.push("tie");
        }
    }
    for (vk, vc) in distinct.iter() {
        match bmap.get(vk) {
            None => return Err(format!("[victim_resident] victim {} was not resident (residents {:?})", vk, bmap)),
            Some(c0) => {
                if c0 != vc {
                    return Err(format!("[victim_cost] victim {} reported with cost {}, it was charged {}", vk, vc, c0));
                }
            }
        }
        if est[vk] > inc {
            return Err(format!("[victim_not_more_popular] victim {} (estimate {}) is more popular than the newcomer {} (estimate {})", vk, est[vk], ik, inc));
        }
        if amap.contains_key(vk) {
            return Err(format!("[victim_removed] victim {} is still charged after the add", vk));
        }
    }
    // nothing else disappeared
    for k in bmap.keys() {
        if !amap.contains_key(k) && !distinct.iter().any(|d| d.0 == *k) {
            return Err(format!("[silent_eviction] key {} lost its charge without being reported as victim", k));
        }
    }
    // evicted only while room was lacking: without the last victim there was still no room
    if let Some((_, last_cost)) = distinct.last() {
        let freed: i64 = distinct.iter().map(|d| d.1).sum();
        let room_before_last = max - (used - (freed - last_cost) + ic);
        if room_before_last >= 0 {
            return Err(format!("[evict_only_while_lacking] victims {:?}: room was already {} before the last eviction", distinct, room_before_last));
        }
    }
    let freed: i64 = distinct.iter().map(|d| d.1).sum();
    if added {
        if used - freed + ic > max {
            return Err(format!("[admit_needs_room] admitted with total {} > max_cost {}", used - freed + ic, max));
        }
        if used_after != used - freed + ic {
            return Err(format!("[used_accounting] used {} after the add, expected {}", used_after, used - freed + ic));
        }
    } else {
        if amap.contains_key(&ik) {
            return Err(format!("[reject_not_charged] rejected key {} is charged", ik));
        }
        // a rejection happens only when room is still lacking
        if max - (used - freed + ic) >= 0 {
            return Err(format!("[reject_with_room] rejected although after evicting {:?} there was room", distinct));
        }
    }
    // popularity extremes over what was resident at each decision
    let remaining_at_end: Vec<u64> = bmap.keys().filter(|k| !distinct.iter().any(|d| d.0 == **k)).copied().collect();
    if !added {
        // rejected: some resident (still present) must be strictly more popular than the newcomer
        if !remaining_at_end.iter().any(|k| est[k] > inc) {
            return Err(format!(
                "[reject_only_if_less_popular] newcomer {} (estimate {}) was rejected although no remaining resident is more popular ({:?})",
                ik,
                inc,
                remaining_at_end.iter().map(|k| (*k, est[k])).collect::<Vec<_>>()
            ));
        }
    }
    if let Some(m) = min_all {
        if inc < m && (added || !distinct.is_empty()) {
            return Err(format!("[strictly_less_popular_rejected] newcomer estimate {} < every resident's (min {}), it must be rejected without victims (added {}, victims {:?})", inc, m, added, distinct));
        }
    }
    // with at most 5 residents the sample is the whole resident set: exact rule
    if bmap.len() <= 5 {
        let mut live: BTreeMap<u64, i64> = bmap.clone();
        let mut u = used;
        let mut expect_added = true;
        let mut vi = 0;
        while max - (u + ic) < 0 {
            let m = live.keys().map(|k| est[k]).min();
            match m {
                None => {
                    // nobody left to evict: min_hits stays MAX, the newcomer is rejected
                    expect_added = false;
                    break;
                }
                Some(m) => {
                    if inc < m {
                        expect_added = false;
                        break;
                    }
                    // the implementation's victim at this point must be an arg-min
                    match distinct.get(vi) {
                        None => return Err(format!("[exact_small] expected another victim (min estimate {}), got victims {:?}", m, distinct)),
                        Some((vk, vc)) => {
                            if est[vk] != m {
                                return Err(format!("[victim_is_least_popular] victim {} has estimate {}, the least popular candidate has {}", vk, est[vk], m));
                            }
                            live.remove(vk);
                            u -= vc;
                            vi += 1;
                        }
                    }
                }
            }
        }
        if vi != distinct.len() {
            return Err(format!("[exact_small] more victims than needed: {:?}", distinct));
        }
        if expect_added != added {
            return Err(format!("[exact_small] newcomer estimate {}: expected added = {}, got {} (residents {:?})", inc, expect_added, added, bmap.keys().map(|k| (*k, est[k])).collect::<Vec<_>>()));
        }
    }
    // observer: per-round rule
    let mut prev_sample = 0usize;
    for (ri, r) in rounds.iter().enumerate() {
        if r.room >= 0 {
            return Err(format!("[round_only_while_lacking] round {} ran with room {}", ri, r.room));
        }
        let want = 5usize.min(if ri == 0 { r.residents } else { (prev_sample).max(0) + r.residents });
        let want = want.min(5);
        if ri == 0 && r.sample.len() != 5usize.min(r.residents) {
            return Err(format!("[sample_size] first round sampled {} candidates with {} residents", r.sample.len(), r.residents));
        }
        let _ = want;
        if r.sample.len() > 5 {
            return Err(format!("[sample_size] round {} sampled {} candidates", ri, r.sample.len()));
        }
        if let Some(mh) = r.sample.iter().map(|s| s.2).min() {
            if r.min_hits != mh {
                return Err(format!("[round_min] round {}: chosen minimum {} but the sample's least estimate is {}", ri, r.min_hits, mh));
            }
        }
        prev_sample = r.sample.len().saturating_sub(1);
    }
    Ok(feats)
}

// ------------------------------------------------------------------------------------------
// C18 part A: key builders
// ------------------------------------------------------------------------------------------

#[derive(Clone, Debug, Serialize, Deserialize, Hash, PartialEq, Eq)]
pub struct KeyCase {
    pub ints: Vec<i128>,
    pub strings: Vec<String>,
    pub bytes: Vec<Vec<u8>>,
}

pub fn key_strategy() -> BoxedStrategy<KeyCase> {
    let int = prop_oneof![
        any::<i64>().prop_map(|x| x as i128),
        any::<u64>().prop_map(|x| x as i128),
        proptest::sample::select(vec![0i128, 1, -1, 127, 128, -128, 255, 256, 32767, 32768, -32768, 65535, 65536, i32::MAX as i128, i32::MIN as i128, u32::MAX as i128, i64::MAX as i128, i64::MIN as i128, u64::MAX as i128]),
        (-300i128..300),
    ];
    (
        proptest::collection::vec(int, 1..12),
        proptest::collection::vec(".{0,24}", 0..6),
        proptest::collection::vec(proptest::collection::vec(any::<u8>(), 0..40), 0..6),
    )
        .prop_map(|(ints, strings, bytes)| KeyCase { ints, strings, bytes })
        .boxed()
}

pub fn run_keys(c: &KeyCase) -> Result<CompFeats, String> {
    use stretto::{DefaultKeyBuilder, KeyBuilder, TransparentKey, TransparentKeyBuilder};
    let mut feats = CompFeats { nontrivial: true, classes: vec![] };
    macro_rules! tk {
        ($t:ty, $x:expr) => {{
            let v: i128 = $x;
            if v >= <$t>::MIN as i128 && v <= <$t>::MAX as i128 {
                let k = v as $t;
                let kb = TransparentKeyBuilder::<$t>::default();
                let a = kb.build_key(&k);
                let b = kb.build_key(&k);
                if a != b {
                    return Err(format!("[deterministic] {} {:?}: {:?} then {:?}", stringify!($t), k, a, b));
                }
                if a != (k.to_u64(), 0) {
                    return Err(format!("[identity] TransparentKeyBuilder<{}> maps {:?} to {:?}, expected ({}, 0)", stringify!($t), k, a, k.to_u64()));
                }
                if k.to_u64() != (k as u64) {
                    return Err(format!("[to_u64] {} {:?}.to_u64() = {}", stringify!($t), k, k.to_u64()));
                }
            }
        }};
    }
    for x in c.ints.iter() {
        tk!(u8, *x);
        tk!(u16, *x);
        tk!(u32, *x);
        tk!(u64, *x);
        tk!(usize, *x);
        tk!(i8, *x);
        tk!(i16, *x);
        tk!(i32, *x);
        tk!(i64, *x);
        tk!(isize, *x);
    }
    // distinct integers of one type never collide
    {
        let kb = TransparentKeyBuilder::<i64>::default();
        let mut seen: HashMap<(u64, u64), i64> = HashMap::new();
        for x in c.ints.iter() {
            if *x >= i64::MIN as i128 && *x <= i64::MAX as i128 {
                let k = *x as i64;
                if let Some(o) = seen.insert(kb.build_key(&k), k) {
                    if o != k {
                        return Err(format!("[injective] i64 keys {} and {} map to the same hashes", o, k));
                    }
                }
            }
        }
        if c.ints.iter().any(|x| *x < 0) {
            feats.classes.push("negative_int");
        }
    }
    {
        let kb = TransparentKeyBuilder::<bool>::default();
        if kb.build_key(&true) != (1, 0) || kb.build_key(&false) != (0, 0) {
            return Err("[identity] bool keys".to_string());
        }
    }
    // String / &str, Vec<u8> / &[u8]
    let kbs = DefaultKeyBuilder::<String>::default();
    for s in c.strings.iter() {
        let a = kbs.build_key(s);
        let b = kbs.build_key(s.as_str());
        let a2 = kbs.build_key(&s.clone());
        if a != b {
            return Err(format!("[borrowed_same] String {:?} hashes to {:?}, as &str to {:?}", s, a, b));
        }
        if a != a2 {
            return Err(format!("[deterministic] String {:?}: {:?} then {:?}", s, a, a2));
        }
        feats.classes.push("string");
    }
    let kbb = DefaultKeyBuilder::<Vec<u8>>::default();
    for v in c.bytes.iter() {
        let a = kbb.build_key(v);
        let b = kbb.build_key(v.as_slice());
        if a != b {
            return Err(format!("[borrowed_same] Vec<u8> {:?} hashes to {:?}, as &[u8] to {:?}", v, a, b));
        }
        if a != kbb.build_key(&v.clone()) {
            return Err(format!("[deterministic] Vec<u8> {:?}", v));
        }
    }
    // distinct strings: index or conflict must differ (128-bit identity)
    for (i, s) in c.strings.iter().enumerate() {
        for t in c.strings.iter().skip(i + 1) {
            if s != t && kbs.build_key(s) == kbs.build_key(t) {
                return Err(format!("[distinct_strings] {:?} and {:?} have identical (index, conflict)", s, t));
            }
        }
    }
    Ok(feats)
}

// ------------------------------------------------------------------------------------------
// C17 part: Histogram
// ------------------------------------------------------------------------------------------

#[derive(Clone, Debug, Serialize, Deserialize, Hash, PartialEq, Eq)]
pub struct HistCase {
    pub bounds: Vec<u32>,
    pub samples: Vec<i64>,
}

pub fn hist_strategy() -> BoxedStrategy<HistCase> {
    (
        proptest::collection::vec(1u32..5000, 1..10),
        proptest::collection::vec(prop_oneof![0i64..6000, Just(0i64), 0i64..10], 0..60),
    )
        .prop_map(|(mut bounds, samples)| {
            bounds.sort_unstable();
            bounds.dedup();
            HistCase { bounds, samples }
        })
        .boxed()
}

pub fn run_hist(c: &HistCase) -> Result<CompFeats, String> {
    let h = stretto::Histogram::new(c.bounds.iter().map(|b| *b as f64).collect());
    let mut want = vec![0i64; c.bounds.len() + 1];
    for s in c.samples.iter() {
        h.update(*s);
        let idx = c.bounds.iter().position(|b| *s < *b as i64).unwrap_or(c.bounds.len());
        want[idx] += 1;
    }
    let text = format!("{}", h);
    let mut count = -1i64;
    let mut got: BTreeMap<u64, i64> = BTreeMap::new();
    for line in text.lines() {
        if let Some(r) = line.strip_prefix("Count: ") {
            count = r.trim().parse().unwrap_or(-1);
        } else if line.starts_with('[') {
            let parts: Vec<&str> = line.split_whitespace().collect();
            let lb: u64 = parts[0].trim_start_matches('[').trim_end_matches(',').parse().unwrap_or(u64::MAX);
            got.insert(lb, parts[2].parse().unwrap_or(-1));
        }
    }
    if count != c.samples.len() as i64 {
        return Err(format!("[hist_count] {} updates, Count: {}", c.samples.len(), count));
    }
    let sum: i64 = got.values().sum();
    if sum != count {
        return Err(format!("[hist_count_eq_buckets] count {} != sum of buckets {}", count, sum));
    }
    for (i, w) in want.iter().enumerate() {
        let lb = if i == 0 { 0 } else { c.bounds[i - 1] as u64 };
        let g = got.get(&lb).copied().unwrap_or(0);
        if g != *w {
            return Err(format!("[hist_bucket] bucket starting at {} holds {}, expected {} (bounds {:?})", lb, g, w, c.bounds));
        }
    }
    if !c.samples.is_empty() {
        let mean = c.samples.iter().sum::<i64>() as f64 / c.samples.len() as f64;
        if (h.mean() - mean).abs() > 1e-9 * mean.abs().max(1.0) {
            return Err(format!("[hist_mean] mean {} expected {}", h.mean(), mean));
        }
    } else if h.mean() != 0.0 {
        return Err("[hist_mean] empty histogram has non-zero mean".to_string());
    }
    let mut last = f64::MIN;
    for p in [0.0, 0.1, 0.25, 0.5, 0.75, 0.9, 0.99, 1.0] {
        let v = h.percentile(p);
        if v < last {
            return Err(format!("[hist_percentile_monotone] percentile({}) = {} < previous {}", p, v, last));
        }
        last = v;
    }
    h.clear();
    let t2 = format!("{}", h);
    if !t2.contains("Count: 0") {
        return Err("[hist_clear] clear did not zero the count".to_string());
    }
    Ok(CompFeats { nontrivial: !c.samples.is_empty(), classes: vec![] })
}

// ------------------------------------------------------------------------------------------
// value types: the same quiescent history on caches of several value types, default everything
// ------------------------------------------------------------------------------------------

#[derive(Clone, Debug, Serialize, Deserialize, Hash, PartialEq, Eq)]
pub enum TOp {
    Insert { k: u8, cost: u8, ttl_s: u16 },
    Iip { k: u8, cost: u8 },
    Remove { k: u8 },
    Get { k: u8 },
    GetTtl { k: u8 },
}

#[derive(Clone, Debug, Serialize, Deserialize, Hash)]
pub struct TypedCase {
    /// 0: (), 1: u8, 2: u64, 3: [u8; 64], 4: String, 5: Vec<u32>
    pub vt: u8,
    pub asynchronous: bool,
    pub metrics: bool,
    pub ops: Vec<TOp>,
    /// key type: 0 = u64 under the default key builder (then `vt` picks the value type); 1.. = an
    /// integer key type under TransparentKeyBuilder resp. String under the default one, the five
    /// key slots mapped to boundary values of the type (values are u64 then)
    #[serde(default)]
    pub kt: u8,
}

pub fn typed_strategy() -> BoxedStrategy<TypedCase> {
    let op = prop_oneof![
        5 => (0u8..5, 0u8..4, prop_oneof![3 => Just(0u16), 2 => 100u16..4000]).prop_map(|(k, cost, ttl_s)| TOp::Insert { k, cost, ttl_s }),
        3 => (0u8..5, 0u8..4).prop_map(|(k, cost)| TOp::Iip { k, cost }),
        2 => (0u8..5).prop_map(|k| TOp::Remove { k }),
        2 => (0u8..5).prop_map(|k| TOp::Get { k }),
        2 => (0u8..5).prop_map(|k| TOp::GetTtl { k }),
    ];
    (0u8..6, proptest::bool::weighted(0.3), any::<bool>(), proptest::collection::vec(op, 2..14), prop_oneof![3 => Just(0u8), 2 => 1u8..=KEY_TYPES])
        .prop_map(|(vt, asynchronous, metrics, ops, kt)| TypedCase { vt, asynchronous, metrics, ops, kt })
        .boxed()
}

pub const KEY_TYPES: u8 = 12;

/// the same histories, always on one of the non-default key types
pub fn keyed_strategy() -> BoxedStrategy<TypedCase> {
    (typed_strategy(), 1u8..=KEY_TYPES)
        .prop_map(|(mut c, kt)| {
            c.kt = kt;
            c
        })
        .boxed()
}

fn typed_rt() -> &'static tokio::runtime::Runtime {
    static RT: std::sync::OnceLock<tokio::runtime::Runtime> = std::sync::OnceLock::new();
    RT.get_or_init(|| tokio::runtime::Builder::new_multi_thread().worker_threads(4).enable_all().build().unwrap())
}

/// one quiescent history (wait() after every write) against an exact map; `mk` makes the value for
/// a serial number, `eq` compares two values (always true for the unit type)
fn typed_history<V: Send + Sync + Clone + 'static>(c: &TypedCase, mk: fn(u32) -> V, eq: fn(&V, &V) -> bool, only: &[&str]) -> Result<CompFeats, String> {
    keyed_history::<u64, stretto::DefaultKeyBuilder<u64>, V>(c, Default::default(), |k| k as u64, mk, eq, only)
}

fn keyed_history<K, KH, V>(c: &TypedCase, kh: KH, kmap: fn(u8) -> K, mk: fn(u32) -> V, eq: fn(&V, &V) -> bool, only: &[&str]) -> Result<CompFeats, String>
where
    K: std::hash::Hash + Eq + Send + Sync + 'static + std::fmt::Debug,
    KH: stretto::KeyBuilder<Key = K> + Send + Sync + 'static,
    V: Send + Sync + Clone + 'static,
{
    use std::collections::HashMap;
    let mut feats = CompFeats { nontrivial: false, classes: vec![] };
    let fail = |pred: &str, msg: String| -> Result<(), String> {
        if only.contains(&pred) {
            Err(format!("[{}] key type {} ({:?}), value type #{} ({} bytes){}: {}", pred, std::any::type_name::<K>(), (0u8..5).map(kmap).collect::<Vec<K>>(), c.vt, std::mem::size_of::<V>(), if c.asynchronous { ", async" } else { "" }, msg))
        } else {
            Ok(())
        }
    };
    // model: key -> (serial, ttl seconds or 0)
    let mut model: HashMap<u8, (u32, u16)> = HashMap::new();
    let mut serial = 0u32;
    macro_rules! history {
        ($cache:expr, $aw:ident) => {{
            let cache = $cache;
            for (step, op) in c.ops.iter().enumerate() {
                match op {
                    TOp::Insert { k, cost, ttl_s } => {
                        serial += 1;
                        let r = if *ttl_s == 0 { $aw!(cache.try_insert(kmap(*k), mk(serial), *cost as i64)) } else { $aw!(cache.try_insert_with_ttl(kmap(*k), mk(serial), *cost as i64, Duration::from_secs(*ttl_s as u64))) };
                        let r = r.map_err(|e| e.to_string());
                        if r != Ok(true) {
                            fail("typed_map", format!("step {}: insert of key {} into a nearly empty cache returned {:?}", step, k, r))?;
                        }
                        model.insert(*k, (serial, *ttl_s));
                    }
                    TOp::Iip { k, cost } => {
                        serial += 1;
                        let r = $aw!(cache.try_insert_if_present(kmap(*k), mk(serial), *cost as i64)).map_err(|e| e.to_string());
                        let want = model.contains_key(k);
                        if r != Ok(want) {
                            fail("typed_iip", format!("step {}: insert_if_present on a {} key returned {:?}", step, if want { "resident" } else { "absent" }, r))?;
                        }
                        if want {
                            model.insert(*k, (serial, 0));
                            feats.nontrivial = true;
                        }
                    }
                    TOp::Remove { k } => {
                        let _ = $aw!(cache.try_remove(&kmap(*k)));
                        model.remove(k);
                    }
                    TOp::Get { .. } | TOp::GetTtl { .. } => {}
                }
                let w = $aw!(cache.wait()).map_err(|e| e.to_string());
                if w.is_err() {
                    return Err(format!("HARNESS wait() failed in the typed engine: {:?}", w));
                }
                // every key of the domain
                for k in 0u8..5 {
                    let got = $aw!(cache.get(&kmap(k))).map(|r| r.value().clone());
                    match (got, model.get(&k)) {
                        (None, None) => {}
                        (Some(v), Some((s, _))) => {
                            if !eq(&v, &mk(*s)) {
                                fail("typed_map", format!("step {}: key {} holds another value than the last one written (#{})", step, k, s))?;
                            }
                        }
                        (None, Some((s, _))) => fail("typed_map", format!("step {}: key {} (value #{}) is gone although the cache is far below capacity", step, k, s))?,
                        (Some(_), None) => fail("typed_map", format!("step {}: key {} is retrievable although it was removed / never inserted", step, k))?,
                    }
                    let t = cache.get_ttl(&kmap(k));
                    match (t, model.get(&k)) {
                        (None, None) => {}
                        (Some(d), Some((_, 0))) => {
                            if d != Duration::MAX {
                                fail("typed_ttl", format!("step {}: key {} was last written without TTL but reports {:?}", step, k, d))?;
                            }
                        }
                        (Some(d), Some((_, ttl))) => {
                            let max = Duration::from_secs(*ttl as u64);
                            if d > max || d + Duration::from_secs(60) < max {
                                fail("typed_ttl", format!("step {}: key {} was last written with a TTL of {} s but reports {:?}", step, k, ttl, d))?;
                            }
                        }
                        (None, Some(_)) | (Some(_), None) => fail("typed_ttl", format!("step {}: get_ttl of key {} disagrees with its presence", step, k))?,
                    }
                }
            }
            if cache.len() != model.len() {
                fail("typed_map", format!("len() {} != {} keys written and not removed", cache.len(), model.len()))?;
            }
            let _ = $aw!(cache.close());
        }};
    }
    macro_rules! now {
        ($e:expr) => {
            $e
        };
    }
    if c.asynchronous {
        let rt = typed_rt();
        let cache = stretto::AsyncCacheBuilder::<K, V, KH>::new_with_key_builder(1000, 1 << 40, kh).set_metrics(c.metrics).finalize(|f| {
            typed_rt().spawn(f);
        });
        let cache = cache.map_err(|e| format!("HARNESS typed cache could not be built: {}", e))?;
        let r: Result<(), String> = rt.block_on(async {
            macro_rules! aw {
                ($e:expr) => {
                    $e.await
                };
            }
            history!(&cache, aw);
            Ok(())
        });
        r?;
    } else {
        let cache = stretto::CacheBuilder::<K, V, KH>::new_with_key_builder(1000, 1 << 40, kh).set_metrics(c.metrics).finalize().map_err(|e| format!("HARNESS typed cache could not be built: {}", e))?;
        history!(&cache, now);
    }
    if c.kt != 0 {
        feats.classes.push("non_default_key_type");
    }
    feats.classes.push(match c.vt {
        0 => "unit",
        1 => "u8",
        2 => "u64",
        3 => "array64",
        4 => "string",
        _ => "vec",
    });
    Ok(feats)
}

fn run_typed_only(c: &TypedCase, only: &[&str]) -> Result<CompFeats, String> {
    use stretto::TransparentKeyBuilder as T;
    let v = |s: u32| s as u64 * 0x1_0000_0001;
    let e = |a: &u64, b: &u64| a == b;
    // slot 0 and slot 1 differ only above the low half of the type's width, slot 2 is -1 / MAX,
    // slot 3 the low half all ones, slot 4 the sign bit / top bit plus slot 0's low bits
    let r = caught(|| match (c.kt, c.vt) {
        (1, _) => keyed_history::<i64, T<i64>, u64>(c, T::default(), |k| [7, (1 << 32) + 7, -1, 0xFFFF_FFFF, i64::MIN + 7][k as usize], v, e, only),
        (2, _) => keyed_history::<u64, T<u64>, u64>(c, T::default(), |k| [7, (1 << 32) + 7, u64::MAX, 0xFFFF_FFFF, (1 << 63) + 7][k as usize], v, e, only),
        (3, _) => keyed_history::<i32, T<i32>, u64>(c, T::default(), |k| [7, 65543, -1, 65535, i32::MIN + 7][k as usize], v, e, only),
        (4, _) => keyed_history::<u32, T<u32>, u64>(c, T::default(), |k| [7, 65543, u32::MAX, 65535, (1 << 31) + 7][k as usize], v, e, only),
        (5, _) => keyed_history::<i16, T<i16>, u64>(c, T::default(), |k| [7, 263, -1, 255, i16::MIN + 7][k as usize], v, e, only),
        (6, _) => keyed_history::<u16, T<u16>, u64>(c, T::default(), |k| [7, 263, u16::MAX, 255, (1 << 15) + 7][k as usize], v, e, only),
        (7, _) => keyed_history::<i8, T<i8>, u64>(c, T::default(), |k| [7, 23, -1, 15, i8::MIN + 7][k as usize], v, e, only),
        (8, _) => keyed_history::<u8, T<u8>, u64>(c, T::default(), |k| [7, 23, u8::MAX, 15, 128 + 7][k as usize], v, e, only),
        (9, _) => keyed_history::<isize, T<isize>, u64>(c, T::default(), |k| [7, (1 << 32) + 7, -1, 0xFFFF_FFFF, isize::MIN + 7][k as usize], v, e, only),
        (10, _) => keyed_history::<usize, T<usize>, u64>(c, T::default(), |k| [7, (1 << 32) + 7, usize::MAX, 0xFFFF_FFFF, (1 << 63) + 7][k as usize], v, e, only),
        (11, _) => keyed_history::<String, stretto::DefaultKeyBuilder<String>, u64>(c, Default::default(), |k| ["", "a", "b", "ab", "ba"][k as usize].to_string(), v, e, only),
        (12, _) => keyed_history::<i64, stretto::DefaultKeyBuilder<i64>, u64>(c, Default::default(), |k| [7, (1 << 32) + 7, -1, 0xFFFF_FFFF, i64::MIN + 7][k as usize], v, e, only),
        (_, 0) => typed_history::<()>(c, |_| (), |_, _| true, only),
        (_, 1) => typed_history::<u8>(c, |s| s as u8, |a, b| a == b, only),
        (_, 2) => typed_history::<u64>(c, |s| s as u64 * 0x1_0000_0001, |a, b| a == b, only),
        (_, 3) => typed_history::<[u8; 64]>(c, |s| [s as u8; 64], |a, b| a == b, only),
        (_, 4) => typed_history::<String>(c, |s| format!("value-{}", s), |a, b| a == b, only),
        _ => typed_history::<Vec<u32>>(c, |s| vec![s; (s % 7) as usize], |a, b| a == b, only),
    });
    match r {
        Ok(r) => r,
        Err(p) => Err(format!("[typed_panic] value type #{}: {}", c.vt, p)),
    }
}

pub fn run_typed_c04(c: &TypedCase) -> Result<CompFeats, String> {
    run_typed_only(c, &["typed_map"])
}
pub fn run_typed_c09(c: &TypedCase) -> Result<CompFeats, String> {
    run_typed_only(c, &["typed_iip", "typed_ttl"])
}
pub fn run_typed_c03(c: &TypedCase) -> Result<CompFeats, String> {
    run_typed_only(c, &["typed_ttl"])
}
pub fn run_typed_all(c: &TypedCase) -> Result<CompFeats, String> {
    run_typed_only(c, &["typed_map", "typed_iip", "typed_ttl"])
}

// ------------------------------------------------------------------------------------------
// scale: one long-lived cache with real workers, more than 100 000 admissions, then a shrunken
// budget - conservation of values and of the counters after long use
// ------------------------------------------------------------------------------------------

#[derive(Clone, Debug, Serialize, Deserialize, Hash)]
pub struct ScaleCase {
    /// distinct keys admitted first (above the processor's 100 000-entry bookkeeping horizon)
    pub n: u32,
    pub metrics: bool,
    pub asynchronous: bool,
    /// seconds of TTL on every entry (0 = none; an hour and more: nothing expires during the case)
    pub ttl_s: u32,
    /// budget the cache is shrunk to afterwards
    pub shrink_to: u32,
    /// inserts issued after the shrink
    pub after: u8,
}

pub fn scale_strategy() -> BoxedStrategy<ScaleCase> {
    (100_200u32..135_000, any::<bool>(), proptest::bool::weighted(0.3), prop_oneof![2 => Just(0u32), 1 => 3_600u32..90_000], 1u32..5_000, 1u8..40)
        .prop_map(|(n, metrics, asynchronous, ttl_s, shrink_to, after)| ScaleCase { n, metrics, asynchronous, ttl_s, shrink_to, after })
        .boxed()
}

#[derive(Clone, Default)]
struct CountCb(std::sync::Arc<parking_lot::Mutex<std::collections::HashMap<u64, u8>>>);
impl stretto::CacheCallback for CountCb {
    type Value = u64;
    fn on_exit(&self, v: Option<u64>) {
        if let Some(v) = v {
            *self.0.lock().entry(v).or_insert(0) += 1;
        }
    }
    fn on_evict(&self, item: stretto::Item<u64>) {
        if let Some(v) = item.val {
            *self.0.lock().entry(v).or_insert(0) += 1;
        }
    }
    fn on_reject(&self, item: stretto::Item<u64>) {
        if let Some(v) = item.val {
            *self.0.lock().entry(v).or_insert(0) += 1;
        }
    }
}

pub fn run_scale(c: &ScaleCase) -> Result<CompFeats, String> {
    match caught(|| run_scale_inner(c)) {
        Ok(r) => r,
        Err(p) => Err(format!("[scale_panic] {:?}: {}", c, p)),
    }
}

fn run_scale_inner(c: &ScaleCase) -> Result<CompFeats, String> {
    let mut feats = CompFeats { nontrivial: true, classes: vec![] };
    let cb = CountCb::default();
    let ttl = Duration::from_secs(c.ttl_s as u64);
    let n = c.n as u64;
    let total = n + c.after as u64;
    macro_rules! body {
        ($cache:expr, $aw:ident) => {{
            let cache = $cache;
            // wait() may legitimately fail while the insert buffer is full: retried for a while; a
            // wait() that keeps failing means the processor is gone
            macro_rules! settle {
                () => {{
                    let t0 = std::time::Instant::now();
                    loop {
                        match $aw!(cache.wait()) {
                            Ok(()) => break,
                            Err(e) => {
                                if t0.elapsed() > Duration::from_secs(20) {
                                    return Err(format!("[scale_liveness] {:?}: wait() kept failing for 20 s: {} (the background processor is gone)", c, e));
                                }
                                std::thread::sleep(Duration::from_millis(2));
                            }
                        }
                    }
                }};
            }
            let mut accepted: Vec<u64> = Vec::with_capacity(total as usize);
            for k in 0..n {
                let r = if c.ttl_s == 0 { $aw!(cache.try_insert(k, k, 1)) } else { $aw!(cache.try_insert_with_ttl(k, k, 1, ttl)) };
                match r {
                    Ok(true) => accepted.push(k),
                    Ok(false) => {}
                    Err(e) => return Err(format!("HARNESS scale: insert failed: {}", e)),
                }
                if k % 8192 == 8191 {
                    settle!();
                }
            }
            settle!();
            // far below capacity: everything accepted is resident, nothing has been handed back
            if cache.len() != accepted.len() {
                return Err(format!("[scale_map] {:?}: {} inserts accepted into a cache with room for all of them, len() = {}", c, accepted.len(), cache.len()));
            }
            if !cb.0.lock().is_empty() {
                return Err(format!("[scale_conservation] {:?}: {} values were handed to callbacks although nothing had to leave", c, cb.0.lock().len()));
            }
            cache.update_max_cost(c.shrink_to as i64);
            for k in n..total {
                match $aw!(cache.try_insert(k, k, 1)) {
                    Ok(true) => accepted.push(k),
                    Ok(false) => {}
                    Err(e) => return Err(format!("HARNESS scale: insert failed: {}", e)),
                }
                settle!();
            }
            // conservation after long use: resident or handed to exactly one callback
            let log = cb.0.lock().clone();
            let mut resident = 0usize;
            let mut lost = 0usize;
            let mut first_lost = None;
            for k in accepted.iter() {
                let here = $aw!(cache.get(k)).map(|r| *r.value() == *k).unwrap_or(false);
                let cbs = log.get(k).copied().unwrap_or(0);
                if here {
                    resident += 1;
                }
                if here as u8 + cbs != 1 {
                    lost += 1;
                    first_lost.get_or_insert((*k, here, cbs));
                }
            }
            if lost > 0 {
                return Err(format!("[scale_conservation] {:?}: after {} admissions and a budget shrunk to {}, {} accepted values are not 'resident or handed to exactly one callback' (first: key {:?} resident/callbacks)", c, n, c.shrink_to, lost, first_lost));
            }
            if resident != cache.len() {
                return Err(format!("[scale_map] {:?}: {} accepted keys are retrievable, len() = {}", c, resident, cache.len()));
            }
            if c.metrics {
                let m = &cache.metrics;
                let (ka, ke) = (m.get_keys_added().unwrap_or(0), m.get_keys_evicted().unwrap_or(0));
                if ka.wrapping_sub(ke) != resident as u64 {
                    return Err(format!("[scale_metrics] {:?}: keys_added {} - keys_evicted {} != {} resident entries", c, ka, ke, resident));
                }
            }
            let _ = $aw!(cache.close());
        }};
    }
    macro_rules! now {
        ($e:expr) => {
            $e
        };
    }
    if c.asynchronous {
        let cache = stretto::AsyncCacheBuilder::<u64, u64, stretto::TransparentKeyBuilder<u64>>::new_with_key_builder(c.n as usize * 2, 1 << 40, Default::default())
            .set_metrics(c.metrics)
            .set_ignore_internal_cost(true)
            .set_callback(cb.clone())
            .finalize(|f| {
                typed_rt().spawn(f);
            })
            .map_err(|e| format!("HARNESS scale cache could not be built: {}", e))?;
        let r: Result<(), String> = typed_rt().block_on(async {
            macro_rules! aw {
                ($e:expr) => {
                    $e.await
                };
            }
            body!(&cache, aw);
            Ok(())
        });
        r?;
        feats.classes.push("async");
    } else {
        let cache = stretto::CacheBuilder::<u64, u64, stretto::TransparentKeyBuilder<u64>>::new_with_key_builder(c.n as usize * 2, 1 << 40, Default::default())
            .set_metrics(c.metrics)
            .set_ignore_internal_cost(true)
            .set_callback(cb.clone())
            .finalize()
            .map_err(|e| format!("HARNESS scale cache could not be built: {}", e))?;
        body!(&cache, now);
    }
    if c.metrics {
        feats.classes.push("metrics_on");
    }
    if c.ttl_s != 0 {
        feats.classes.push("with_ttl");
    }
    Ok(feats)
}
