//! Verification harness for transparencies/stretto (library part: engines, models, oracles).
pub mod checks;
pub mod clock;
pub mod common;
pub mod comp;
pub mod fuzzdec;
pub mod gen;
pub mod lockstep;
pub mod pool;
pub mod stress;
pub mod sut;
