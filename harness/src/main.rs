use sv::{checks, clock, common, fuzzdec, gen, lockstep, stress};

use common::*;

fn usage() -> ! {
    eprintln!("usage: sv check <ID> <quick|thorough> | sv replay <ID> <file> | sv selftest");
    std::process::exit(2);
}

fn main() {
    let args: Vec<String> = std::env::args().collect();
    if args.len() < 2 {
        usage();
    }
    install_panic_ledger(std::env::var("VERIF_QUIET_PANICS").map(|v| v != "0").unwrap_or(true));
    if !clock::self_test() {
        eprintln!("INCONCLUSIVE: clock interposition is not in effect");
        std::process::exit(2);
    }
    match args[1].as_str() {
        "worker" => {
            std::process::exit(stress::worker_main());
        }
        "hugecost" => {
            let c: checks::HugeCostCase = serde_json::from_str(&args[2]).expect("bad case");
            println!("{}", checks::huge_cost_child(&c));
        }
        "selftest" => {
            println!("clock interposition ok; item_size = {}", gen::item_size());
        }
        "check" => {
            if args.len() < 4 {
                usage();
            }
            std::process::exit(run_check(&args[2], &args[3]));
        }
        "replay" => {
            if args.len() < 4 {
                usage();
            }
            std::process::exit(run_replay(&args[2], &args[3]));
        }
        _ => usage(),
    }
}

fn run_check(id: &str, tier: &str) -> i32 {
    let seed = seed_from_env();
    let t = Timer::start();
    let stats: &'static Stats = Box::leak(Box::new(Stats::default()));
    start_case_watchdog(id, tier, seed, stats, std::time::Instant::now());
    let mut outs: Vec<checks::CheckOutcome> = Vec::new();
    let mut rules: Vec<String> = Vec::new();
    let mut assumptions: Vec<String> = Vec::new();
    let mut engines: Vec<String> = Vec::new();
    let failed = |outs: &Vec<checks::CheckOutcome>| outs.iter().any(|o| o.violation.is_some() || o.inconclusive.is_some());
    // replay tier: the saved counterexamples of earlier findings (seconds)
    let mut replayed = 0u32;
    {
        let mut files: Vec<std::path::PathBuf> = Vec::new();
        let dirs: &[&str] = if std::env::var("VERIF_NO_REPLAY").is_ok() { &[] } else { &["findings", "regress"] };
        for dir in dirs.iter() {
            if let Ok(rd) = std::fs::read_dir(common::verif_dir().join(dir)) {
                files.extend(rd.filter_map(|e| e.ok()).map(|e| e.path()).filter(|p| p.extension().map(|x| x == "json").unwrap_or(false)));
            }
        }
        files.sort();
        for f in files {
            let Ok(text) = std::fs::read_to_string(&f) else { continue };
            let Ok(v) = serde_json::from_str::<serde_json::Value>(&text) else { continue };
            let fails: Vec<String> = match v["engine"].as_str().unwrap_or("") {
                "lockstep" => match serde_json::from_value::<lockstep::Case>(v["case"].clone()) {
                    Ok(case) => checks::replay_ls(id, &case).0,
                    Err(_) => continue,
                },
                "stress" | "diff" | "" => continue,
                other => match checks::replay_comp(other, v["case"].clone()) {
                    Some(Err(m)) if v["property"].as_str() == Some(id) => vec![m],
                    _ => vec![],
                },
            };
            replayed += 1;
            if !fails.is_empty() && !failed(&outs) {
                outs.push(checks::CheckOutcome { violation: Some((format!("saved counterexample fails again: {}", fails.join("; ")), f.to_string_lossy().into_owned())), inconclusive: None });
            }
        }
    }
    stats.count_n("replay_tier:saved_counterexamples_replayed", replayed as u64);
    if let Some(chk) = checks::ls_check(id) {
        if !failed(&outs) {
            outs.push(checks::run_ls_check(&chk, tier, seed, &stats));
        }
        rules.push(chk.rule.to_string());
        assumptions.extend(chk.assumptions.iter().map(|s| s.to_string()));
        engines.push(format!("lockstep E1 (profile {})", chk.profile.name));
    }
    if id == "C19" {
        outs.push(checks::run_diff_check(tier, seed, &stats));
        engines.push("lockstep differential sync vs async (E1)".to_string());
    }
    for part in checks::comp_parts(id) {
        if failed(&outs) {
            break;
        }
        outs.push(checks::run_comp_part(id, &part, tier, seed, &stats));
        engines.push(format!("component E4 ({})", part.engine));
    }
    let known = checks::known_findings(id);
    let mut known_hit: Vec<String> = Vec::new();
    let sparts = checks::stress_parts(id);
    if id == "C01" && !failed(&outs) {
        outs.push(checks::run_huge_cost_probe(id, tier, seed, stats, &known, &mut known_hit));
        engines.push("huge-cost probe (generated costs at the top of the i64 range, one child process per case)".to_string());
    }
    for part in sparts.iter() {
        if failed(&outs) {
            break;
        }
        outs.push(checks::run_stress_part(id, part, tier, seed, &stats, &known, &mut known_hit));
        engines.push(format!("stress E3 ({:?}, {}% async executors)", part.kind, part.async_pct));
    }
    if !sparts.is_empty() {
        let (r, a) = checks::stress_rule(id);
        rules.push(r.to_string());
        assumptions.extend(a.iter().map(|s| s.to_string()));
    }
    // E5: coverage-guided campaign (thorough tier)
    let mut fuzz_note = serde_json::Value::Null;
    if common::tier_is_thorough(tier) && !failed(&outs) {
        if let Some(target) = checks::fuzz_target_for(id) {
            let secs: u64 = std::env::var("VERIF_FUZZ_SECS").ok().and_then(|s| s.parse().ok()).unwrap_or(90);
            let fo = checks::run_fuzz_campaign(id, target, secs, seed);
            engines.push(format!("libFuzzer target `{}` (E5), {} s", target, secs));
            stats.evaluations.fetch_add(fo.execs, std::sync::atomic::Ordering::Relaxed);
            fuzz_note = serde_json::json!({"target": target, "seconds": secs, "executions": fo.execs, "note": fo.note});
            if fo.violation.is_some() {
                outs.push(checks::CheckOutcome { violation: fo.violation, inconclusive: None });
            }
        }
    }
    for l in known_hit.iter() {
        println!("{}", l);
    }
    let (r, a) = checks::comp_rule(id);
    if !r.is_empty() {
        rules.push(r.to_string());
        assumptions.extend(a.iter().map(|s| s.to_string()));
    }
    let has_any = checks::ls_check(id).is_some() || !checks::comp_parts(id).is_empty() || !checks::stress_parts(id).is_empty() || id == "C19";
    if !has_any {
        eprintln!("no check for {}", id);
        return 2;
    }
    if replayed > 0 {
        engines.push(format!("replay tier ({} saved counterexamples)", replayed));
    }
    let violation = outs.iter().find_map(|o| o.violation.clone());
    let inconclusive = outs.iter().find_map(|o| o.inconclusive.clone());
    let spec = EvidenceSpec {
        prop: id,
        tier,
        seed,
        rule: &rules.join(" || "),
        assumptions,
        extra: serde_json::json!({"engines": engines, "fuzz_campaign": fuzz_note}),
    };
    write_evidence(&spec, &stats, t.elapsed(), violation.is_some() as usize);
    if let Some(h) = inconclusive {
        println!("INCONCLUSIVE property={} {}", id, h);
        return 2;
    }
    if let Some((msg, path)) = violation {
        println!("counterexample: {}", msg);
        println!("VIOLATION property={} replay={}", id, path);
        return 1;
    }
    println!(
        "OK property={} tier={} seed={} cases={} nontrivial_distinct={} wall={:.1}s",
        id,
        tier,
        seed,
        stats.evaluations.load(std::sync::atomic::Ordering::Relaxed),
        stats.nontrivial_hashes.lock().len(),
        t.elapsed().as_secs_f64()
    );
    0
}

fn run_replay(id: &str, file: &str) -> i32 {
    let text = match std::fs::read(file) {
        Ok(t) => String::from_utf8_lossy(&t).into_owned(),
        Err(e) => {
            eprintln!("cannot read {}: {}", file, e);
            return 2;
        }
    };
    let v: serde_json::Value = match serde_json::from_str(&text) {
        Ok(v) => v,
        Err(_) => return run_replay_raw(id, file),
    };
    let engine = v["engine"].as_str().unwrap_or("lockstep");
    if engine != "stress" {
        // an in-process case that never returns (see common::start_case_watchdog)
        let secs: u64 = std::env::var("VERIF_REPLAY_TIMEOUT_SECS").ok().and_then(|s| s.parse().ok()).unwrap_or(120);
        let (id, file) = (id.to_string(), file.to_string());
        std::thread::spawn(move || {
            std::thread::sleep(std::time::Duration::from_secs(secs));
            if id == "C20" {
                println!("counterexample: [case_does_not_terminate] the replayed case is still running after {} s (deterministic, single-threaded): an operation of this history never completes", secs);
                println!("VIOLATION property={} replay={}", id, file);
                std::process::exit(1);
            }
            println!("INCONCLUSIVE property={} the replayed case is still running after {} s", id, secs);
            std::process::exit(2);
        });
    }
    match engine {
        "lockstep" => {
            let case: lockstep::Case = serde_json::from_value(v["case"].clone()).expect("bad case");
            let (fails, trace) = checks::replay_ls(id, &case);
            for l in trace {
                println!("{}", l);
            }
            if fails.is_empty() {
                println!("replay: property {} held on this case", id);
                0
            } else {
                for f in &fails {
                    println!("counterexample: {}", f);
                }
                println!("VIOLATION property={} replay={}", id, file);
                1
            }
        }
        "diff" => {
            let case: lockstep::Case = serde_json::from_value(v["case"].clone()).expect("bad case");
            match checks::diff_case(&case, None) {
                Ok(f) if f.is_empty() => {
                    println!("replay: sync and async flavours agree on this case");
                    0
                }
                Ok(f) => {
                    for l in f {
                        println!("counterexample: {}", l);
                    }
                    println!("VIOLATION property={} replay={}", id, file);
                    1
                }
                Err(h) => {
                    println!("INCONCLUSIVE {}", h);
                    2
                }
            }
        }
        "stress" => {
            let (fails, runs) = checks::replay_stress(id, &v["case"]);
            if fails.is_empty() {
                println!("replay: property {} held in {} re-runs of these scripts (the OS schedule is not reproducible)", id, runs);
                0
            } else {
                println!("counterexample ({} of {} re-runs): {}", fails.len(), runs, fails[0]);
                println!("VIOLATION property={} replay={}", id, file);
                1
            }
        }
        "hugecost" => {
            let case: checks::HugeCostCase = serde_json::from_value(v["case"].clone()).expect("bad case");
            let (status, msg, overflows) = checks::replay_huge_cost(&case);
            match status.as_str() {
                "ok" => {
                    println!("replay: property {} held on this case", id);
                    0
                }
                "harness" => {
                    println!("INCONCLUSIVE {}", msg);
                    2
                }
                _ => {
                    if overflows {
                        if let Some(k) = checks::known_findings(id).iter().find(|k| k.signature == "huge_cost_arithmetic_overflow") {
                            println!("KNOWN-FINDING: property={} {} ({})", id, k.signature, k.what);
                            return 0;
                        }
                    }
                    println!("counterexample: [huge_cost] {:?}: {} - {}", case, status, msg);
                    println!("VIOLATION property={} replay={}", id, file);
                    1
                }
            }
        }
        other => match checks::replay_comp(other, v["case"].clone()) {
            None => {
                eprintln!("unknown engine {}", other);
                2
            }
            Some(Ok(())) => {
                println!("replay: property {} held on this case", id);
                0
            }
            Some(Err(m)) => {
                println!("counterexample: {}", m);
                println!("VIOLATION property={} replay={}", id, file);
                1
            }
        },
    }
}

/// a raw libFuzzer artifact (not JSON): decode with the same decoder as the fuzz target
fn run_replay_raw(id: &str, file: &str) -> i32 {
    let data = std::fs::read(file).unwrap_or_default();
    let target = if file.contains("fuzz-estimators-") { "estimators" } else { "lockstep" };
    let (fails, trace) = checks::replay_fuzz_artifact(id, target, &data);
    for l in trace {
        println!("{}", l);
    }
    if fails.is_empty() {
        println!("replay: property {} held on this input", id);
        0
    } else {
        for f in &fails {
            println!("counterexample: {}", f);
        }
        println!("VIOLATION property={} replay={}", id, file);
        1
    }
}
