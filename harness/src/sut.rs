//! Adapters over the parked sync and async caches: one interface for the interpreter.
use crate::common::*;
use std::cell::RefCell;
use std::future::Future;
use std::pin::Pin;
use std::sync::Arc;
use std::task::{Context, Poll, RawWaker, RawWakerVTable, Waker};
use std::time::Duration;
use stretto::verif::{AsyncParkedProcessor, ParkedProcessor, Snapshot};
use stretto::{AsyncCache, AsyncCacheBuilder, Cache, CacheBuilder};

pub type SCache = Cache<u64, Val, TableKB, TagCoster, Validator, RecCallback, DetS>;
pub type ACache = AsyncCache<u64, Val, TableKB, TagCoster, Validator, RecCallback, DetS>;

#[derive(Clone, Debug)]
pub struct BuildCfg {
    pub num_counters: usize,
    pub max_cost: i64,
    pub buffer_size: usize,
    pub buffer_items: usize,
    pub ignore_internal_cost: bool,
    pub metrics: bool,
    pub validator: Validator,
    pub keys: Vec<(u64, u64)>,
    /// in which order the builder's setters are called (0 = key builder in the constructor)
    pub order: u8,
}

/// The same configuration through different call orders of the builder (the setters that change a
/// type parameter rebuild the builder; every other setting must survive that).
macro_rules! build_chain {
    ($B:ident, $cfg:expr, $kb:expr, $cb:expr) => {{
        let cfg = $cfg;
        match cfg.order % 5 {
            0 => $B::new_with_key_builder(cfg.num_counters, cfg.max_cost, $kb)
                .set_buffer_size(cfg.buffer_size)
                .set_buffer_items(cfg.buffer_items)
                .set_ignore_internal_cost(cfg.ignore_internal_cost)
                .set_metrics(cfg.metrics)
                .set_coster(TagCoster)
                .set_update_validator(cfg.validator)
                .set_callback($cb)
                .set_hasher(DetS::default())
                .verif_finalize_parked(),
            // plain settings first, the type-changing setters (key builder included) afterwards
            1 => $B::<u64, Val>::new(cfg.num_counters, cfg.max_cost)
                .set_buffer_items(cfg.buffer_items)
                .set_buffer_size(cfg.buffer_size)
                .set_metrics(cfg.metrics)
                .set_ignore_internal_cost(cfg.ignore_internal_cost)
                .set_key_builder($kb)
                .set_coster(TagCoster)
                .set_update_validator(cfg.validator)
                .set_callback($cb)
                .set_hasher(DetS::default())
                .verif_finalize_parked(),
            // type-changing setters first
            2 => $B::<u64, Val>::new(cfg.num_counters, cfg.max_cost)
                .set_hasher(DetS::default())
                .set_callback($cb)
                .set_update_validator(cfg.validator)
                .set_coster(TagCoster)
                .set_key_builder($kb)
                .set_ignore_internal_cost(cfg.ignore_internal_cost)
                .set_metrics(cfg.metrics)
                .set_buffer_size(cfg.buffer_size)
                .set_buffer_items(cfg.buffer_items)
                .verif_finalize_parked(),
            // interleaved, sizes given through their setters
            3 => $B::<u64, Val>::new(97, 7)
                .set_buffer_items(cfg.buffer_items)
                .set_coster(TagCoster)
                .set_max_cost(cfg.max_cost)
                .set_buffer_size(cfg.buffer_size)
                .set_update_validator(cfg.validator)
                .set_metrics(cfg.metrics)
                .set_callback($cb)
                .set_num_counters(cfg.num_counters)
                .set_ignore_internal_cost(cfg.ignore_internal_cost)
                .set_hasher(DetS::default())
                .set_key_builder($kb)
                .verif_finalize_parked(),
            _ => $B::<u64, Val>::new(cfg.num_counters, cfg.max_cost)
                .set_metrics(cfg.metrics)
                .set_key_builder($kb)
                .set_buffer_size(cfg.buffer_size)
                .set_hasher(DetS::default())
                .set_ignore_internal_cost(cfg.ignore_internal_cost)
                .set_callback($cb)
                .set_buffer_items(cfg.buffer_items)
                .set_update_validator(cfg.validator)
                .set_coster(TagCoster)
                .verif_finalize_parked(),
        }
    }};
}

#[derive(Clone, Copy, Debug, PartialEq, Eq)]
pub enum StepKind {
    Insert,
    Clear,
}

/// A processor step performed by the adapter while a client call was blocked.
#[derive(Clone, Debug)]
pub struct StepObs {
    pub kind: StepKind,
    pub log: Vec<Ev>,
    pub err: Option<String>,
    /// the policy's charges right after the step
    pub costs: Vec<(u64, i64)>,
}

#[derive(Clone, Debug, Default, PartialEq)]
pub struct MetricsView {
    pub hits: u64,
    pub misses: u64,
    pub keys_added: u64,
    pub keys_updated: u64,
    pub keys_evicted: u64,
    pub cost_added: u64,
    pub cost_evicted: u64,
    pub sets_dropped: u64,
    pub sets_rejected: u64,
    pub gets_dropped: u64,
    pub gets_kept: u64,
    pub ratio: f64,
    pub hist_count: i64,
    pub hist_bucket_sum: i64,
    /// largest lifetime (seconds) the life-expectancy histogram has recorded
    pub hist_max: i64,
}

fn metrics_view(m: &stretto::Metrics) -> Option<MetricsView> {
    if !m.is_op() {
        return None;
    }
    let h = m.life_expectancy_seconds().unwrap();
    let text = format!("{}", h);
    let mut count = -1i64;
    let mut bsum = 0i64;
    let mut hmax = 0i64;
    for line in text.lines() {
        if let Some(r) = line.strip_prefix("Count: ") {
            count = r.trim().parse().unwrap_or(-1);
        } else if let Some(r) = line.strip_prefix("Max value: ") {
            hmax = r.trim().parse().unwrap_or(0);
        } else if line.starts_with('[') {
            // "[lb, ub) ct page% cum%"
            let parts: Vec<&str> = line.split_whitespace().collect();
            if parts.len() >= 3 {
                bsum += parts[2].parse::<i64>().unwrap_or(0);
            }
        }
    }
    Some(MetricsView {
        hits: m.get_hits().unwrap(),
        misses: m.get_misses().unwrap(),
        keys_added: m.get_keys_added().unwrap(),
        keys_updated: m.get_keys_updated().unwrap(),
        keys_evicted: m.get_keys_evicted().unwrap(),
        cost_added: m.get_cost_added().unwrap(),
        cost_evicted: m.get_cost_evicted().unwrap(),
        sets_dropped: m.get_sets_dropped().unwrap(),
        sets_rejected: m.get_sets_rejected().unwrap(),
        gets_dropped: m.get_gets_dropped().unwrap(),
        gets_kept: m.get_gets_kept().unwrap(),
        ratio: m.ratio().unwrap(),
        hist_count: count,
        hist_bucket_sum: bsum,
        hist_max: hmax,
    })
}

pub fn metrics_view_pub(m: &stretto::Metrics) -> Option<MetricsView> {
    metrics_view(m)
}

pub trait Sut {
    fn insert(&self, k: u64, v: Val, cost: i64, ttl: Duration) -> Result<bool, String>;
    fn insert_if_present(&self, k: u64, v: Val, cost: i64) -> Result<bool, String>;
    fn remove(&self, k: u64) -> Result<(), String>;
    /// (value, ValueRef::ttl)
    fn get(&self, k: u64) -> Option<(Val, Duration)>;
    /// look up, keep the reference, let `advance` move the clock, read the ttl again:
    /// (value, ttl at lookup, ttl afterwards)
    fn get_hold(&self, k: u64, advance: &dyn Fn()) -> Option<(Val, Duration, Duration)>;
    /// value seen; optionally overwritten in place
    fn get_mut(&self, k: u64, write: Option<Val>) -> Option<Val>;
    fn get_ttl(&self, k: u64) -> Option<Duration>;
    fn max_cost(&self) -> i64;
    fn update_max_cost(&self, m: i64);
    fn len(&self) -> usize;
    /// `pre` insert-arm steps are taken before the clear arm if the call blocks
    fn clear(&self, pre: usize) -> (Result<(), String>, Vec<StepObs>);
    fn wait(&self) -> (Result<(), String>, Vec<StepObs>);
    fn step_insert(&self) -> Option<Result<(), String>>;
    fn step_clear(&self) -> Option<Result<(), String>>;
    fn step_cleanup(&self) -> Result<(), String>;
    fn step_policy(&self) -> bool;
    fn pending(&self) -> (usize, usize, usize);
    fn snapshot(&self) -> Snapshot<Val>;
    fn estimate(&self, index: u64) -> i64;
    fn doorkeeper_has(&self, index: u64) -> bool;
    fn window(&self) -> (usize, usize);
    fn metrics(&self) -> Option<MetricsView>;
    fn tracked(&self) -> usize;
    fn item_size(&self) -> usize;
    fn take_log(&self) -> Vec<Ev>;
    fn is_async(&self) -> bool;
    fn buffer_cap(&self) -> usize;
    /// processor steps that do nothing when the processor is in the middle of a step itself
    fn try_step_insert(&self) -> Option<Result<(), String>>;
    fn try_step_cleanup(&self) -> Option<Result<(), String>>;
    fn try_step_policy(&self) -> bool;
    fn processor_free(&self) -> bool;
    /// clear() issued from inside a yield hook (must not install a hook of its own)
    fn clear_nested(&self, pre: usize) -> (Result<(), String>, Vec<StepObs>);
    /// sync flavour: clear() on a helper thread while the processor stays idle for `ms` of real
    /// time after the signal was queued; `.2` tells whether the call had returned by then
    fn clear_patient(&self, _pre: usize, _ms: u64) -> Option<(Result<(), String>, Vec<StepObs>, bool)> {
        None
    }
    /// the next wait() lets the processor idle for `ms` of real time after the marker was queued
    fn set_wait_patience(&self, _ms: u64) {}
}

thread_local! {
    static WAIT_PATIENCE_MS: std::cell::Cell<u64> = const { std::cell::Cell::new(0) };
}

// ------------------------------------------------------------------------------------------
// sync
// ------------------------------------------------------------------------------------------

pub struct SyncSut<KH: stretto::KeyBuilder<Key = u64> = TableKB, C = TagCoster, U = Validator> {
    /// use the panicking wrappers (insert, insert_with_ttl, insert_if_present, remove) instead of try_*
    pub wrappers: bool,
    pub cap: usize,
    pub cache: Cache<u64, Val, KH, C, U, RecCallback, DetS>,
    pub proc_: RefCell<ParkedProcessor<Val, U, RecCallback, DetS>>,
    pub cb: RecCallback,
}

/// the builder's own key builder, coster and update validator (recording callback and fixed hasher kept)
pub type SyncSutDefaults = SyncSut<stretto::DefaultKeyBuilder<u64>, stretto::DefaultCoster<Val>, stretto::DefaultUpdateValidator<Val>>;

impl SyncSutDefaults {
    pub fn build_defaults(cfg: &BuildCfg) -> Result<Self, stretto::CacheError> {
        let cb = RecCallback::default();
        *cb.canon.lock() = Some(cfg.keys.iter().copied().collect());
        let (cache, proc_) = CacheBuilder::<u64, Val>::new(cfg.num_counters, cfg.max_cost)
            .set_buffer_size(cfg.buffer_size)
            .set_buffer_items(cfg.buffer_items)
            .set_ignore_internal_cost(cfg.ignore_internal_cost)
            .set_metrics(cfg.metrics)
            .set_callback(cb.clone())
            .set_hasher(DetS::default())
            .verif_finalize_parked()?;
        Ok(SyncSut { wrappers: cfg.order >= 5, cap: cfg.buffer_size, cache, proc_: RefCell::new(proc_), cb })
    }
}

impl SyncSut {
    pub fn build(cfg: &BuildCfg) -> Result<Self, stretto::CacheError> {
        let cb = RecCallback::default();
        let kb = TableKB {
            table: Arc::new(cfg.keys.clone()),
        };
        let (cache, proc_) = build_chain!(CacheBuilder, cfg, kb, cb.clone())?;
        Ok(SyncSut {
            wrappers: cfg.order >= 5,
            cap: cfg.buffer_size,
            cache,
            proc_: RefCell::new(proc_),
            cb,
        })
    }
}

impl<KH, C, U> SyncSut<KH, C, U>
where
    KH: stretto::KeyBuilder<Key = u64> + Send + Sync + 'static,
    C: stretto::Coster<Value = Val>,
    U: stretto::UpdateValidator<Value = Val>,
{
    fn do_step(&self, kind: StepKind) -> Option<StepObs> {
        let r = match self.proc_.try_borrow_mut() {
            Ok(mut p) => match kind {
                StepKind::Insert => p.step_insert(),
                StepKind::Clear => p.step_clear(),
            },
            Err(_) => None,
        }?;
        Some(StepObs {
            kind,
            log: self.cb.take(),
            err: r.err().map(|e| e.to_string()),
            costs: self.cache.verif_snapshot().costs,
        })
    }
}

fn es<T>(r: Result<T, stretto::CacheError>) -> Result<T, String> {
    r.map_err(|e| e.to_string())
}

fn use_ref<S: std::hash::BuildHasher>(r: stretto::ValueRef<'_, Val, S>, k: u64) -> (Val, Duration) {
    let t = r.ttl();
    let v = match k % 3 {
        0 => *r.value(),
        1 => *r.as_ref(),
        _ => return (r.read(), t),
    };
    if k % 2 == 1 {
        r.release();
    }
    (v, t)
}

/// every way the guard offers to read and to write, chosen by the key
fn use_ref_mut<S: std::hash::BuildHasher>(mut r: stretto::ValueRefMut<'_, Val, S>, k: u64, write: Option<Val>) -> Val {
    let seen = match k % 3 {
        0 => *r.value(),
        1 => r.clone_inner(),
        _ => *r.value_mut(),
    };
    match write {
        None => {
            if k % 2 == 0 {
                r.release();
            }
        }
        Some(w) => match (k + w.tag as u64) % 3 {
            0 => r.write(w),
            1 => r.write_once(w),
            _ => *r.value_mut() = w,
        },
    }
    seen
}

/// the panicking wrappers unwrap the try_* result: a panic is that Err
fn unwrapped<T>(f: impl FnOnce() -> T) -> Result<T, String> {
    std::panic::catch_unwind(std::panic::AssertUnwindSafe(f)).map_err(|p| {
        let _ = crate::common::panics_take();
        let m = p.downcast_ref::<String>().cloned().or_else(|| p.downcast_ref::<&str>().map(|s| s.to_string())).unwrap_or_default();
        format!("wrapper panicked: {}", m)
    })
}

impl<KH, C, U> Sut for SyncSut<KH, C, U>
where
    KH: stretto::KeyBuilder<Key = u64> + Send + Sync + 'static,
    C: stretto::Coster<Value = Val>,
    U: stretto::UpdateValidator<Value = Val>,
{
    fn insert(&self, k: u64, v: Val, cost: i64, ttl: Duration) -> Result<bool, String> {
        if self.wrappers {
            return unwrapped(|| if ttl.is_zero() { self.cache.insert(k, v, cost) } else { self.cache.insert_with_ttl(k, v, cost, ttl) });
        }
        if ttl.is_zero() {
            es(self.cache.try_insert(k, v, cost))
        } else {
            es(self.cache.try_insert_with_ttl(k, v, cost, ttl))
        }
    }
    fn insert_if_present(&self, k: u64, v: Val, cost: i64) -> Result<bool, String> {
        if self.wrappers {
            return unwrapped(|| self.cache.insert_if_present(k, v, cost));
        }
        es(self.cache.try_insert_if_present(k, v, cost))
    }
    fn remove(&self, k: u64) -> Result<(), String> {
        if self.wrappers {
            return unwrapped(|| self.cache.remove(&k));
        }
        es(self.cache.try_remove(&k))
    }
    fn get(&self, k: u64) -> Option<(Val, Duration)> {
        self.cache.get(&k).map(|r| use_ref(r, k))
    }
    fn get_hold(&self, k: u64, advance: &dyn Fn()) -> Option<(Val, Duration, Duration)> {
        self.cache.get(&k).map(|r| {
            let t1 = r.ttl();
            advance();
            (*r.value(), t1, r.ttl())
        })
    }
    fn get_mut(&self, k: u64, write: Option<Val>) -> Option<Val> {
        self.cache.get_mut(&k).map(|r| use_ref_mut(r, k, write))
    }
    fn get_ttl(&self, k: u64) -> Option<Duration> {
        self.cache.get_ttl(&k)
    }
    fn max_cost(&self) -> i64 {
        self.cache.max_cost()
    }
    fn update_max_cost(&self, m: i64) {
        self.cache.update_max_cost(m)
    }
    fn len(&self) -> usize {
        self.cache.len()
    }
    fn clear(&self, pre: usize) -> (Result<(), String>, Vec<StepObs>) {
        // If clear() waits for the processor, it announces that at the yield point
        // `clear.wait_ack`; the processor then takes `pre` more items and handles the clear signal.
        let steps: std::rc::Rc<RefCell<Vec<StepObs>>> = Default::default();
        let steps2 = steps.clone();
        let me: *const SyncSut<KH, C, U> = self;
        stretto::verif::set_thread_yield_hook(Some(Box::new(move |id| {
            if id == "clear.wait_ack" {
                // SAFETY: the hook only runs synchronously inside `self.cache.clear()` below.
                let me = unsafe { &*me };
                let mut out = steps2.borrow_mut();
                for _ in 0..pre {
                    match me.do_step(StepKind::Insert) {
                        Some(s) => out.push(s),
                        None => break,
                    }
                }
                while let Some(s) = me.do_step(StepKind::Clear) {
                    out.push(s);
                }
            }
        })));
        let r = es(self.cache.clear());
        stretto::verif::set_thread_yield_hook(None);
        let v = steps.borrow().clone();
        (r, v)
    }
    fn clear_patient(&self, pre: usize, ms: u64) -> Option<(Result<(), String>, Vec<StepObs>, bool)> {
        let mut steps = Vec::new();
        let mut early = false;
        let res = std::thread::scope(|s| {
            let cache = &self.cache;
            let h = s.spawn(move || es(cache.clear()));
            let mut spins = 0u64;
            while !h.is_finished() && self.pending().1 == 0 {
                spins += 1;
                if spins > 50_000_000 {
                    panic!("HARNESS clear(): helper neither queued its signal nor returned");
                }
                std::thread::yield_now();
            }
            if !h.is_finished() {
                // the processor is busy elsewhere for a while: clear() has to keep waiting
                std::thread::sleep(Duration::from_millis(ms));
                early = h.is_finished() && self.pending().1 > 0;
            }
            for _ in 0..pre {
                match self.do_step(StepKind::Insert) {
                    Some(st) => steps.push(st),
                    None => break,
                }
            }
            let mut idle = 0u64;
            loop {
                while let Some(st) = self.do_step(StepKind::Clear) {
                    steps.push(st);
                }
                if h.is_finished() {
                    break;
                }
                idle += 1;
                if idle > 20_000_000 {
                    panic!("HANG clear(): signal handled, caller still blocked");
                }
                std::thread::yield_now();
            }
            h.join().unwrap()
        });
        Some((res, steps, early))
    }
    fn set_wait_patience(&self, ms: u64) {
        WAIT_PATIENCE_MS.with(|c| c.set(ms));
    }
    fn wait(&self) -> (Result<(), String>, Vec<StepObs>) {
        let before = self.pending().0;
        let mut steps = Vec::new();
        let patience = WAIT_PATIENCE_MS.with(|c| c.replace(0));
        let res = std::thread::scope(|s| {
            let cache = &self.cache;
            let h = s.spawn(move || es(cache.wait()));
            // do nothing until the Wait item is in the buffer (or the call failed)
            let mut spins = 0u64;
            loop {
                if h.is_finished() {
                    break;
                }
                if self.pending().0 > before {
                    break;
                }
                spins += 1;
                if spins > 50_000_000 {
                    panic!("HARNESS wait(): helper neither queued nor returned");
                }
                std::thread::yield_now();
            }
            if patience > 0 && !h.is_finished() {
                // the processor is busy elsewhere for a while: wait() has to keep waiting (if it
                // gives up, the caller sees Ok with its marker - and what precedes it - unapplied)
                std::thread::sleep(Duration::from_millis(patience));
            }
            let mut idle = 0u64;
            while !h.is_finished() {
                match self.do_step(StepKind::Insert) {
                    Some(s) => {
                        steps.push(s);
                        idle = 0;
                    }
                    None => {
                        idle += 1;
                        if idle > 20_000_000 {
                            panic!("HANG wait(): buffer empty, waiter still blocked");
                        }
                        std::thread::yield_now();
                    }
                }
            }
            h.join().unwrap()
        });
        (res, steps)
    }
    fn step_insert(&self) -> Option<Result<(), String>> {
        self.proc_.borrow_mut().step_insert().map(es)
    }
    fn step_clear(&self) -> Option<Result<(), String>> {
        self.proc_.borrow_mut().step_clear().map(es)
    }
    fn step_cleanup(&self) -> Result<(), String> {
        es(self.proc_.borrow_mut().step_cleanup())
    }
    fn step_policy(&self) -> bool {
        self.proc_.borrow_mut().step_policy()
    }
    fn pending(&self) -> (usize, usize, usize) {
        match self.proc_.try_borrow() {
            Ok(p) => p.pending(),
            // asked from inside a processor step (interposition): only queue lengths are read
            Err(_) => unsafe { (*self.proc_.as_ptr()).pending() },
        }
    }
    fn snapshot(&self) -> Snapshot<Val> {
        let mut s = self.cache.verif_snapshot();
        if self.cb.canon.lock().is_some() {
            for e in s.entries.iter_mut() {
                e.conflict = self.cb.canon_conflict(e.index, e.conflict);
            }
            for (_, keys) in s.buckets.iter_mut() {
                for (k, c) in keys.iter_mut() {
                    *c = self.cb.canon_conflict(*k, *c);
                }
            }
        }
        s
    }
    fn estimate(&self, index: u64) -> i64 {
        self.cache.verif_estimate(index)
    }
    fn doorkeeper_has(&self, index: u64) -> bool {
        self.cache.verif_doorkeeper_has(index)
    }
    fn window(&self) -> (usize, usize) {
        self.cache.verif_window()
    }
    fn metrics(&self) -> Option<MetricsView> {
        metrics_view(&self.cache.metrics)
    }
    fn tracked(&self) -> usize {
        self.proc_.borrow().tracked()
    }
    fn item_size(&self) -> usize {
        self.cache.verif_item_size()
    }
    fn take_log(&self) -> Vec<Ev> {
        self.cb.take()
    }
    fn is_async(&self) -> bool {
        false
    }
    fn buffer_cap(&self) -> usize {
        self.cap
    }
    fn try_step_insert(&self) -> Option<Result<(), String>> {
        self.proc_.try_borrow_mut().ok().and_then(|mut p| p.step_insert().map(es))
    }
    fn try_step_cleanup(&self) -> Option<Result<(), String>> {
        self.proc_.try_borrow_mut().ok().map(|mut p| es(p.step_cleanup()))
    }
    fn try_step_policy(&self) -> bool {
        self.proc_.try_borrow_mut().ok().map(|mut p| p.step_policy()).unwrap_or(false)
    }
    fn processor_free(&self) -> bool {
        self.proc_.try_borrow_mut().is_ok()
    }
    fn clear_nested(&self, _pre: usize) -> (Result<(), String>, Vec<StepObs>) {
        // a synchronous clear() inside a hook would need a second hook to step the processor:
        // not expressible with depth-1 hooks, so the sync flavour skips it
        (Ok(()), Vec::new())
    }
}

// ------------------------------------------------------------------------------------------
// async
// ------------------------------------------------------------------------------------------

fn noop_waker() -> Waker {
    fn clone(_: *const ()) -> RawWaker {
        RawWaker::new(std::ptr::null(), &VTABLE)
    }
    fn noop(_: *const ()) {}
    static VTABLE: RawWakerVTable = RawWakerVTable::new(clone, noop, noop, noop);
    unsafe { Waker::from_raw(RawWaker::new(std::ptr::null(), &VTABLE)) }
}

pub struct AsyncSut<KH: stretto::KeyBuilder<Key = u64> = TableKB, C = TagCoster, U = Validator> {
    pub wrappers: bool,
    pub cap: usize,
    pub cache: AsyncCache<u64, Val, KH, C, U, RecCallback, DetS>,
    pub proc_: RefCell<AsyncParkedProcessor<Val, U, RecCallback, DetS>>,
    pub cb: RecCallback,
}

pub type AsyncSutDefaults = AsyncSut<stretto::DefaultKeyBuilder<u64>, stretto::DefaultCoster<Val>, stretto::DefaultUpdateValidator<Val>>;

impl AsyncSutDefaults {
    pub fn build_defaults(cfg: &BuildCfg) -> Result<Self, stretto::CacheError> {
        let cb = RecCallback::default();
        *cb.canon.lock() = Some(cfg.keys.iter().copied().collect());
        let (cache, proc_) = AsyncCacheBuilder::<u64, Val>::new(cfg.num_counters, cfg.max_cost)
            .set_buffer_size(cfg.buffer_size)
            .set_buffer_items(cfg.buffer_items)
            .set_ignore_internal_cost(cfg.ignore_internal_cost)
            .set_metrics(cfg.metrics)
            .set_callback(cb.clone())
            .set_hasher(DetS::default())
            .verif_finalize_parked()?;
        Ok(AsyncSut { wrappers: cfg.order >= 5, cap: cfg.buffer_size, cache, proc_: RefCell::new(proc_), cb })
    }
}

impl AsyncSut {
    pub fn build(cfg: &BuildCfg) -> Result<Self, stretto::CacheError> {
        let cb = RecCallback::default();
        let kb = TableKB {
            table: Arc::new(cfg.keys.clone()),
        };
        let (cache, proc_) = build_chain!(AsyncCacheBuilder, cfg, kb, cb.clone())?;
        Ok(AsyncSut {
            wrappers: cfg.order >= 5,
            cap: cfg.buffer_size,
            cache,
            proc_: RefCell::new(proc_),
            cb,
        })
    }

}

impl<KH, C, U> AsyncSut<KH, C, U>
where
    KH: stretto::KeyBuilder<Key = u64> + Send + Sync + 'static,
    C: stretto::Coster<Value = Val>,
    U: stretto::UpdateValidator<Value = Val>,
{
    fn do_step(&self, kind: StepKind) -> Option<StepObs> {
        let r = match self.proc_.try_borrow_mut() {
            Ok(mut p) => match kind {
                StepKind::Insert => p.step_insert(),
                StepKind::Clear => p.step_clear(),
            },
            Err(_) => None,
        }?;
        Some(StepObs {
            kind,
            log: self.cb.take(),
            err: r.err().map(|e| e.to_string()),
            costs: self.cache.verif_snapshot().costs,
        })
    }

    /// Poll `fut` to completion; whenever it is pending, let the processor take a step chosen by
    /// `plan` (called with the number of steps taken so far).
    fn drive<F: Future>(
        &self,
        fut: F,
        mut plan: impl FnMut(usize) -> StepKind,
        steps: &mut Vec<StepObs>,
    ) -> F::Output {
        let mut fut = Box::pin(fut);
        let waker = noop_waker();
        let mut cx = Context::from_waker(&waker);
        let mut idle = 0u64;
        loop {
            if let Poll::Ready(v) = Pin::as_mut(&mut fut).poll(&mut cx) {
                return v;
            }
            let kind = plan(steps.len());
            match self.do_step(kind).or_else(|| {
                // the planned arm was not ready: take whichever is
                self.do_step(StepKind::Insert)
                    .or_else(|| self.do_step(StepKind::Clear))
            }) {
                Some(s) => {
                    steps.push(s);
                    idle = 0;
                }
                None => {
                    idle += 1;
                    if idle > 1000 {
                        panic!("HANG async call pending with nothing left for the processor to do");
                    }
                }
            }
        }
    }

    fn now<F: Future>(&self, fut: F) -> F::Output {
        let mut steps = Vec::new();
        let r = self.drive(fut, |_| StepKind::Insert, &mut steps);
        assert!(
            steps.is_empty(),
            "HARNESS an async call that should not suspend needed processor steps"
        );
        r
    }
}

impl<KH, C, U> Sut for AsyncSut<KH, C, U>
where
    KH: stretto::KeyBuilder<Key = u64> + Send + Sync + 'static,
    C: stretto::Coster<Value = Val>,
    U: stretto::UpdateValidator<Value = Val>,
{
    fn insert(&self, k: u64, v: Val, cost: i64, ttl: Duration) -> Result<bool, String> {
        if self.wrappers {
            return unwrapped(|| if ttl.is_zero() { self.now(self.cache.insert(k, v, cost)) } else { self.now(self.cache.insert_with_ttl(k, v, cost, ttl)) });
        }
        if ttl.is_zero() {
            es(self.now(self.cache.try_insert(k, v, cost)))
        } else {
            es(self.now(self.cache.try_insert_with_ttl(k, v, cost, ttl)))
        }
    }
    fn insert_if_present(&self, k: u64, v: Val, cost: i64) -> Result<bool, String> {
        if self.wrappers {
            return unwrapped(|| self.now(self.cache.insert_if_present(k, v, cost)));
        }
        es(self.now(self.cache.try_insert_if_present(k, v, cost)))
    }
    fn remove(&self, k: u64) -> Result<(), String> {
        // An async remove awaits buffer space. The interpreter never issues one against a full
        // buffer while its model is in step; under interposition it can happen: let the
        // processor make room and hand the callbacks of those steps back to the log.
        let mut steps = Vec::new();
        let r = self.drive(self.cache.try_remove(&k), |_| StepKind::Insert, &mut steps);
        if !steps.is_empty() {
            let mut evs: Vec<Ev> = steps.into_iter().flat_map(|s| s.log).collect();
            let mut g = self.cb.log.lock();
            evs.append(&mut g);
            *g = evs;
        }
        es(r)
    }
    fn get(&self, k: u64) -> Option<(Val, Duration)> {
        self.now(self.cache.get(&k)).map(|r| use_ref(r, k))
    }
    fn get_hold(&self, k: u64, advance: &dyn Fn()) -> Option<(Val, Duration, Duration)> {
        self.now(self.cache.get(&k)).map(|r| {
            let t1 = r.ttl();
            advance();
            (*r.value(), t1, r.ttl())
        })
    }
    fn get_mut(&self, k: u64, write: Option<Val>) -> Option<Val> {
        self.now(self.cache.get_mut(&k)).map(|r| use_ref_mut(r, k, write))
    }
    fn get_ttl(&self, k: u64) -> Option<Duration> {
        self.cache.get_ttl(&k)
    }
    fn max_cost(&self) -> i64 {
        self.cache.max_cost()
    }
    fn update_max_cost(&self, m: i64) {
        self.cache.update_max_cost(m)
    }
    fn len(&self) -> usize {
        self.cache.len()
    }
    fn clear(&self, pre: usize) -> (Result<(), String>, Vec<StepObs>) {
        let mut steps = Vec::new();
        let r = self.drive(
            self.cache.clear(),
            |n| {
                if n < pre {
                    StepKind::Insert
                } else {
                    StepKind::Clear
                }
            },
            &mut steps,
        );
        (es(r), steps)
    }
    fn wait(&self) -> (Result<(), String>, Vec<StepObs>) {
        let mut steps = Vec::new();
        let r = self.drive(self.cache.wait(), |_| StepKind::Insert, &mut steps);
        (es(r), steps)
    }
    fn step_insert(&self) -> Option<Result<(), String>> {
        self.proc_.borrow_mut().step_insert().map(es)
    }
    fn step_clear(&self) -> Option<Result<(), String>> {
        self.proc_.borrow_mut().step_clear().map(es)
    }
    fn step_cleanup(&self) -> Result<(), String> {
        es(self.proc_.borrow_mut().step_cleanup())
    }
    fn step_policy(&self) -> bool {
        self.proc_.borrow_mut().step_policy()
    }
    fn pending(&self) -> (usize, usize, usize) {
        match self.proc_.try_borrow() {
            Ok(p) => p.pending(),
            // asked from inside a processor step (interposition): only queue lengths are read
            Err(_) => unsafe { (*self.proc_.as_ptr()).pending() },
        }
    }
    fn snapshot(&self) -> Snapshot<Val> {
        let mut s = self.cache.verif_snapshot();
        if self.cb.canon.lock().is_some() {
            for e in s.entries.iter_mut() {
                e.conflict = self.cb.canon_conflict(e.index, e.conflict);
            }
            for (_, keys) in s.buckets.iter_mut() {
                for (k, c) in keys.iter_mut() {
                    *c = self.cb.canon_conflict(*k, *c);
                }
            }
        }
        s
    }
    fn estimate(&self, index: u64) -> i64 {
        self.cache.verif_estimate(index)
    }
    fn doorkeeper_has(&self, index: u64) -> bool {
        self.cache.verif_doorkeeper_has(index)
    }
    fn window(&self) -> (usize, usize) {
        self.cache.verif_window()
    }
    fn metrics(&self) -> Option<MetricsView> {
        metrics_view(&self.cache.metrics)
    }
    fn tracked(&self) -> usize {
        self.proc_.borrow().tracked()
    }
    fn item_size(&self) -> usize {
        self.cache.verif_item_size()
    }
    fn take_log(&self) -> Vec<Ev> {
        self.cb.take()
    }
    fn is_async(&self) -> bool {
        true
    }
    fn buffer_cap(&self) -> usize {
        self.cap
    }
    fn try_step_insert(&self) -> Option<Result<(), String>> {
        self.proc_.try_borrow_mut().ok().and_then(|mut p| p.step_insert().map(es))
    }
    fn try_step_cleanup(&self) -> Option<Result<(), String>> {
        self.proc_.try_borrow_mut().ok().map(|mut p| es(p.step_cleanup()))
    }
    fn try_step_policy(&self) -> bool {
        self.proc_.try_borrow_mut().ok().map(|mut p| p.step_policy()).unwrap_or(false)
    }
    fn processor_free(&self) -> bool {
        self.proc_.try_borrow_mut().is_ok()
    }
    fn clear_nested(&self, pre: usize) -> (Result<(), String>, Vec<StepObs>) {
        self.clear(pre)
    }
}
