//! Shared pieces: value type, recording callback, coster, validator family, key builder,
//! proptest driver (16 parallel runners), evidence and replay files.
use parking_lot::Mutex;
use proptest::strategy::{Strategy, ValueTree};
use proptest::test_runner::{Config, RngSeed, TestCaseError, TestError, TestRunner};
use serde::{Deserialize, Serialize};
use std::collections::hash_map::DefaultHasher;
use std::collections::BTreeMap;
use std::hash::{BuildHasherDefault, Hash, Hasher};
use std::sync::atomic::{AtomicBool, AtomicU64, Ordering};
use std::sync::Arc;
use std::time::{Duration, Instant};

pub type DetS = BuildHasherDefault<DefaultHasher>;

pub const NS: i64 = 1_000_000_000;
/// virtual epoch used by single-threaded engines: an exact second boundary far from zero
pub const T0: i64 = 1_700_000_000 * NS;

// ------------------------------------------------------------------------------------------
// values
// ------------------------------------------------------------------------------------------

/// A uniquely tagged value: `key` is the logical key it was written under, `serial` is unique per
/// case, `tag` is what the Coster charges for it and what validators look at.
#[derive(Clone, Copy, PartialEq, Eq, Hash, Debug, Serialize, Deserialize, PartialOrd, Ord)]
pub struct Val {
    pub key: u32,
    pub serial: u32,
    pub tag: u32,
}

impl std::fmt::Display for Val {
    fn fmt(&self, f: &mut std::fmt::Formatter<'_>) -> std::fmt::Result {
        write!(f, "k{}#{}t{}", self.key, self.serial, self.tag)
    }
}

// ------------------------------------------------------------------------------------------
// callback
// ------------------------------------------------------------------------------------------

#[derive(Clone, Debug, PartialEq, Eq, Serialize)]
pub enum Ev {
    Exit(Val),
    /// (value, index, conflict, cost, ttl_ns, created_ns)
    Evict(Val, u64, u64, i64, i64, i64),
    Reject(Val, u64, u64, i64, i64, i64),
    /// a callback was invoked without a value
    Empty(&'static str),
}

impl Ev {
    pub fn val(&self) -> Option<Val> {
        match self {
            Ev::Exit(v) | Ev::Evict(v, ..) | Ev::Reject(v, ..) => Some(*v),
            Ev::Empty(_) => None,
        }
    }
}

#[derive(Clone, Default)]
pub struct RecCallback {
    pub log: Arc<Mutex<Vec<Ev>>>,
    /// index -> canonical conflict hash: DefaultKeyBuilder seeds its conflict hasher at random per
    /// instance, so what the cache reports is mapped to the table the model works with
    pub canon: Arc<Mutex<Option<std::collections::HashMap<u64, u64>>>>,
}

impl RecCallback {
    pub fn take(&self) -> Vec<Ev> {
        std::mem::take(&mut *self.log.lock())
    }
    pub fn canon_conflict(&self, index: u64, conflict: u64) -> u64 {
        match self.canon.lock().as_ref() {
            Some(m) => m.get(&index).copied().unwrap_or(conflict),
            None => conflict,
        }
    }
}

pub fn time_parts(t: &stretto::Item<Val>) -> (i64, i64) {
    let (d, created) = t.exp.verif_parts();
    let c = created
        .duration_since(std::time::UNIX_EPOCH)
        .map(|d| d.as_nanos() as i64)
        .unwrap_or(-1);
    (d.as_nanos().min(i64::MAX as u128) as i64, c)
}

impl stretto::CacheCallback for RecCallback {
    type Value = Val;
    fn on_exit(&self, val: Option<Val>) {
        self.log.lock().push(match val {
            Some(v) => Ev::Exit(v),
            None => Ev::Empty("exit"),
        });
    }
    fn on_evict(&self, item: stretto::Item<Val>) {
        let (ttl, created) = time_parts(&item);
        self.log.lock().push(match item.val {
            Some(v) => Ev::Evict(v, item.index, self.canon_conflict(item.index, item.conflict), item.cost, ttl, created),
            None => Ev::Empty("evict"),
        });
    }
    fn on_reject(&self, item: stretto::Item<Val>) {
        let (ttl, created) = time_parts(&item);
        self.log.lock().push(match item.val {
            Some(v) => Ev::Reject(v, item.index, self.canon_conflict(item.index, item.conflict), item.cost, ttl, created),
            None => Ev::Empty("reject"),
        });
    }
}

// ------------------------------------------------------------------------------------------
// coster / validator / key builder
// ------------------------------------------------------------------------------------------

/// charges `tag` for a value (used when the explicit cost is 0)
#[derive(Clone, Copy, Default)]
pub struct TagCoster;
impl stretto::Coster for TagCoster {
    type Value = Val;
    fn cost(&self, v: &Val) -> i64 {
        v.tag as i64
    }
}

#[derive(Clone, Copy, Debug, PartialEq, Eq, Serialize, Deserialize, Hash)]
pub enum Validator {
    Always,
    Never,
    /// accept iff new.tag >= prev.tag
    TagGe,
    /// accept iff new.tag is even
    TagEven,
    /// accept iff new.tag != prev.tag
    TagDiffers,
}

impl Validator {
    pub fn ok(&self, prev: &Val, new: &Val) -> bool {
        match self {
            Validator::Always => true,
            Validator::Never => false,
            Validator::TagGe => new.tag >= prev.tag,
            Validator::TagEven => new.tag % 2 == 0,
            Validator::TagDiffers => new.tag != prev.tag,
        }
    }
}

impl stretto::UpdateValidator for Validator {
    type Value = Val;
    fn should_update(&self, prev: &Val, curr: &Val) -> bool {
        self.ok(prev, curr)
    }
}

/// captures the integer written by `u64::hash`
#[derive(Default)]
pub struct Capture(pub u64);
impl Hasher for Capture {
    fn finish(&self) -> u64 {
        self.0
    }
    fn write(&mut self, bytes: &[u8]) {
        let mut b = [0u8; 8];
        let n = bytes.len().min(8);
        b[..n].copy_from_slice(&bytes[..n]);
        self.0 = u64::from_ne_bytes(b);
    }
    fn write_u64(&mut self, i: u64) {
        self.0 = i;
    }
    fn write_u32(&mut self, i: u32) {
        self.0 = i as u64;
    }
}

/// logical key id -> (index, conflict) by table
#[derive(Clone)]
pub struct TableKB {
    pub table: Arc<Vec<(u64, u64)>>,
}

/// logical keys from here on are not in the table: each gets an index hash of its own
pub const WIDE: u64 = 1 << 40;

pub fn wide_index(k: u64) -> (u64, u64) {
    (((k ^ 0xD6E8_FEB8_6659_FD93).wrapping_mul(0x9E37_79B9_7F4A_7C15)) | (1 << 63), 0)
}

impl TableKB {
    pub fn map(&self, k: u64) -> (u64, u64) {
        if k >= WIDE {
            return wide_index(k);
        }
        self.table[(k as usize) % self.table.len()]
    }
}

impl stretto::KeyBuilder for TableKB {
    type Key = u64;
    fn hash_index<Q>(&self, key: &Q) -> u64
    where
        u64: core::borrow::Borrow<Q>,
        Q: Hash + Eq + ?Sized,
    {
        let mut h = Capture::default();
        key.hash(&mut h);
        self.map(h.finish()).0
    }
    fn hash_conflict<Q>(&self, key: &Q) -> u64
    where
        u64: core::borrow::Borrow<Q>,
        Q: Hash + Eq + ?Sized,
    {
        let mut h = Capture::default();
        key.hash(&mut h);
        self.map(h.finish()).1
    }
}

// ------------------------------------------------------------------------------------------
// failures, evidence
// ------------------------------------------------------------------------------------------

/// An oracle failure: which predicate, which properties it speaks for, and what was seen.
#[derive(Clone, Debug, Serialize)]
pub struct Failure {
    pub pred: &'static str,
    pub props: &'static [&'static str],
    pub step: usize,
    pub msg: String,
}

impl Failure {
    pub fn is_for(&self, prop: &str) -> bool {
        self.props.contains(&prop)
    }
}

pub fn seed_from_env() -> u64 {
    std::env::var("VERIF_SEED")
        .ok()
        .and_then(|s| s.trim().parse::<i64>().ok())
        .map(|v| v as u64)
        .unwrap_or(0)
}

pub fn tier_is_thorough(tier: &str) -> bool {
    tier == "thorough"
}

#[derive(Default)]
pub struct Stats {
    pub evaluations: AtomicU64,
    pub classes: Mutex<BTreeMap<String, u64>>,
    pub nontrivial_hashes: Mutex<std::collections::HashSet<u64>>,
    pub samples: Mutex<Vec<serde_json::Value>>,
    pub other_pred_failures: Mutex<BTreeMap<String, u64>>,
    pub known_hits: Mutex<BTreeMap<String, u64>>,
    pub frozen: AtomicBool,
}

impl Stats {
    pub fn count(&self, class: &str) {
        if self.frozen.load(Ordering::Relaxed) {
            return;
        }
        *self.classes.lock().entry(class.to_string()).or_insert(0) += 1;
    }
    pub fn count_n(&self, class: &str, n: u64) {
        *self.classes.lock().entry(class.to_string()).or_insert(0) += n;
    }
    /// record one evaluated case; `nontrivial` by the property's rule; `hash` canonical case hash
    pub fn case(&self, hash: u64, nontrivial: bool, sample: impl FnOnce() -> serde_json::Value) {
        if self.frozen.load(Ordering::Relaxed) {
            return;
        }
        self.evaluations.fetch_add(1, Ordering::Relaxed);
        if nontrivial {
            let fresh = self.nontrivial_hashes.lock().insert(hash);
            if fresh {
                let mut s = self.samples.lock();
                if s.len() < 4 {
                    s.push(sample());
                }
            }
        }
    }
}

pub fn hash_of<T: Hash>(t: &T) -> u64 {
    let mut h = DefaultHasher::new();
    t.hash(&mut h);
    h.finish()
}

pub struct Outcome {
    pub violations: Vec<(String, String)>, // (message, replay path)
    pub known: Vec<String>,
    pub inconclusive: Option<String>,
}

pub struct EvidenceSpec<'a> {
    pub prop: &'a str,
    pub tier: &'a str,
    pub seed: u64,
    pub rule: &'a str,
    pub assumptions: Vec<String>,
    pub extra: serde_json::Value,
}

pub fn write_evidence(spec: &EvidenceSpec, stats: &Stats, wall: Duration, violations: usize) {
    let classes = stats.classes.lock().clone();
    let other = stats.other_pred_failures.lock().clone();
    let known = stats.known_hits.lock().clone();
    let mut samples = stats.samples.lock().clone();
    if samples.is_empty() {
        samples.push(serde_json::json!("no non-trivial case was produced"));
    }
    let mut coverage = serde_json::json!({
        "evaluations": stats.evaluations.load(Ordering::Relaxed),
        "distinct_nontrivial": stats.nontrivial_hashes.lock().len(),
        "rule": spec.rule,
        "samples": samples,
        "classes": classes,
        "failures_of_predicates_outside_this_property": other,
        "known_finding_hits": known,
    });
    if let (Some(c), Some(e)) = (coverage.as_object_mut(), spec.extra.as_object()) {
        for (k, v) in e {
            c.insert(k.clone(), v.clone());
        }
    }
    let ev = serde_json::json!({
        "property_id": spec.prop,
        "tier": if spec.tier == "thorough" { "thorough" } else { "quick" },
        "seed": spec.seed as i64,
        "level": "exploration",
        "coverage": coverage,
        "assumptions": spec.assumptions,
        "wall_s": wall.as_secs_f64(),
        "violations": violations,
    });
    let dir = verif_dir().join("evidence");
    let _ = std::fs::create_dir_all(&dir);
    let path = dir.join(format!("{}.json", spec.prop));
    std::fs::write(&path, serde_json::to_string_pretty(&ev).unwrap()).expect("write evidence");
}

pub fn verif_dir() -> std::path::PathBuf {
    std::env::var("VERIF_DIR")
        .map(std::path::PathBuf::from)
        .unwrap_or_else(|_| std::path::PathBuf::from("/verif"))
}

pub fn write_replay<T: Serialize>(prop: &str, engine: &str, case: &T, failure: &str) -> String {
    let dir = verif_dir().join("replays");
    let _ = std::fs::create_dir_all(&dir);
    let body = serde_json::json!({"property": prop, "engine": engine, "failure": failure, "case": case});
    let text = serde_json::to_string_pretty(&body).unwrap();
    let h = hash_of(&text);
    let path = dir.join(format!("{}-{}-{:012x}.json", prop, engine, h & 0xffff_ffff_ffff));
    std::fs::write(&path, text).expect("write replay");
    path.to_string_lossy().into_owned()
}

// ------------------------------------------------------------------------------------------
// parallel proptest driver
// ------------------------------------------------------------------------------------------

pub struct PropResult<V> {
    /// minimal failing case and its message, if any runner failed
    pub failure: Option<(V, String)>,
    pub aborted: Option<String>,
}

/// wall-clock budget for reducing a failure (proptest shrinking, then the greedy minimizer)
pub fn shrink_budget() -> std::time::Duration {
    std::time::Duration::from_secs(std::env::var("VERIF_SHRINK_SECS").ok().and_then(|s| s.parse().ok()).unwrap_or(25))
}

/// Run `total_cases` cases of `strategy` through `test` on `threads` runners. Each runner has its
/// own deterministic RNG derived from (seed, runner index). The first failure stops the others;
/// the failing runner shrinks its case (the closure is re-run during shrinking, statistics are
/// frozen from the first failure on).
pub fn run_prop<S, M, F>(
    mk_strategy: M,
    total_cases: u32,
    seed: u64,
    threads: usize,
    stats: &Stats,
    test: F,
) -> PropResult<S::Value>
where
    S: Strategy,
    M: Fn() -> S + Sync,
    S::Value: Clone + Send + std::fmt::Debug,
    F: Fn(&S::Value) -> Result<(), String> + Sync,
{
    let stop = AtomicBool::new(false);
    let result: Mutex<Option<(S::Value, String)>> = Mutex::new(None);
    let aborted: Mutex<Option<String>> = Mutex::new(None);
    let per = (total_cases as usize).div_ceil(threads).max(1) as u32;
    std::thread::scope(|scope| {
        for i in 0..threads {
            let mk_strategy = &mk_strategy;
            let test = &test;
            let stop = &stop;
            let result = &result;
            let aborted = &aborted;
            scope.spawn(move || {
                let mut cfg = Config::default();
                cfg.cases = per;
                cfg.failure_persistence = None;
                cfg.rng_seed = RngSeed::Fixed(
                    seed.wrapping_mul(0x9E37_79B9_7F4A_7C15)
                        .wrapping_add(0x1234_5678 + i as u64),
                );
                cfg.max_shrink_iters = 3000;
                cfg.max_global_rejects = 100_000;
                cfg.verbose = 0;
                let mut runner = TestRunner::new(cfg);
                let failed_here = AtomicBool::new(false);
                let failed_at: Mutex<Option<std::time::Instant>> = Mutex::new(None);
                let budget = shrink_budget();
                let strategy = mk_strategy();
                let r = runner.run(&strategy, |v| {
                    if stop.load(Ordering::Relaxed) && !failed_here.load(Ordering::Relaxed) {
                        // another runner failed: finish quickly
                        return Ok(());
                    }
                    // shrinking is bounded in time as well as in iterations: past the budget
                    // every further candidate counts as passing (the failure itself is
                    // established; only its reduction stops early)
                    if let Some(t0) = *failed_at.lock() {
                        if t0.elapsed() > budget {
                            return Ok(());
                        }
                    }
                    match test(&v) {
                        Ok(()) => Ok(()),
                        Err(m) => {
                            failed_at.lock().get_or_insert_with(std::time::Instant::now);
                            failed_here.store(true, Ordering::Relaxed);
                            stop.store(true, Ordering::Relaxed);
                            stats.frozen.store(true, Ordering::Relaxed);
                            Err(TestCaseError::fail(m))
                        }
                    }
                });
                match r {
                    Ok(()) => {}
                    Err(TestError::Fail(reason, v)) => {
                        let mut g = result.lock();
                        if g.is_none() {
                            *g = Some((v, reason.message().to_string()));
                        }
                    }
                    Err(TestError::Abort(reason)) => {
                        *aborted.lock() = Some(reason.message().to_string());
                    }
                }
            });
        }
    });
    PropResult {
        failure: result.into_inner(),
        aborted: aborted.into_inner(),
    }
}

/// Generate `n` values of a strategy deterministically (for corpus export / samples).
pub fn sample_values<S: Strategy>(strategy: &S, n: usize, seed: u64) -> Vec<S::Value> {
    let mut cfg = Config::default();
    cfg.failure_persistence = None;
    cfg.rng_seed = RngSeed::Fixed(seed);
    let mut runner = TestRunner::new(cfg);
    (0..n)
        .filter_map(|_| strategy.new_tree(&mut runner).ok().map(|t| t.current()))
        .collect()
}

// ------------------------------------------------------------------------------------------
// panic ledger
// ------------------------------------------------------------------------------------------

pub static PANICS: Mutex<Vec<String>> = Mutex::new(Vec::new());

pub fn install_panic_ledger(quiet: bool) {
    std::panic::set_hook(Box::new(move |info| {
        let th = std::thread::current();
        let name = th.name().unwrap_or("<unnamed>").to_string();
        let loc = info
            .location()
            .map(|l| format!("{}:{}", l.file(), l.line()))
            .unwrap_or_default();
        let msg = if let Some(s) = info.payload().downcast_ref::<&str>() {
            s.to_string()
        } else if let Some(s) = info.payload().downcast_ref::<String>() {
            s.clone()
        } else {
            "<non-string panic>".to_string()
        };
        if !quiet {
            eprintln!("PANIC thread={} at {}: {}", name, loc, msg);
        }
        PANICS.lock().push(format!("thread={} at {}: {}", name, loc, msg));
    }));
}

pub fn panics_take() -> Vec<String> {
    std::mem::take(&mut *PANICS.lock())
}

pub struct Timer(Instant);
impl Timer {
    pub fn start() -> Self {
        Timer(Instant::now())
    }
    pub fn elapsed(&self) -> Duration {
        self.0.elapsed()
    }
}

// ------------------------------------------------------------------------------------------
// watchdog for in-process cases (E1, E4): a case that never returns
// ------------------------------------------------------------------------------------------

type CaseDump = Box<dyn Fn() -> serde_json::Value + Send>;
struct Watched {
    id: u64,
    since: Instant,
    engine: String,
    dump: CaseDump,
}
static WATCHED: Mutex<Vec<Watched>> = parking_lot::const_mutex(Vec::new());
static WATCH_ID: AtomicU64 = AtomicU64::new(1);

/// registers the case a thread is about to run in-process; dropped when the case returned
pub struct WatchGuard(u64);
impl Drop for WatchGuard {
    fn drop(&mut self) {
        WATCHED.lock().retain(|w| w.id != self.0);
    }
}
pub fn watch_case<T: Serialize + Clone + Send + 'static>(engine: &str, case: &T) -> WatchGuard {
    let id = WATCH_ID.fetch_add(1, Ordering::Relaxed);
    let c = case.clone();
    WATCHED.lock().push(Watched { id, since: Instant::now(), engine: engine.to_string(), dump: Box::new(move || serde_json::to_value(&c).unwrap_or(serde_json::Value::Null)) });
    WatchGuard(id)
}

/// A deterministic, single-threaded case normally takes micro- to milliseconds. One that is still
/// running after `VERIF_CASE_WATCHDOG_SECS` (default 40) is saved and re-run in a child process
/// (`sv replay`) for up to three times that long: if the child finishes, the case was merely slow
/// (load) and the run goes on; if it does not, the code under test does not terminate on that
/// input - no schedule is involved, the threads that matter are all stepped by the interpreter.
/// That is what C20 excludes ("all operations complete"); for any other property the run cannot
/// decide anything any more and ends inconclusive (exit 2).
pub fn start_case_watchdog(prop: &str, tier: &str, seed: u64, stats: &'static Stats, t0: Instant) {
    let prop = prop.to_string();
    let tier = tier.to_string();
    let limit = Duration::from_secs(std::env::var("VERIF_CASE_WATCHDOG_SECS").ok().and_then(|s| s.parse().ok()).unwrap_or(40));
    std::thread::spawn(move || {
        let mut excused: Vec<u64> = Vec::new();
        loop {
            std::thread::sleep(Duration::from_millis(500));
            let hit = {
                let g = WATCHED.lock();
                g.iter().find(|w| w.since.elapsed() > limit && !excused.contains(&w.id)).map(|w| (w.id, w.engine.clone(), (w.dump)()))
            };
            let Some((id, engine, case)) = hit else { continue };
            let msg = format!("[case_does_not_terminate] an in-process {} case is still running after {} s", engine, limit.as_secs());
            let path = write_replay_value(&prop, &engine, &case, &msg);
            let exe = std::env::current_exe().expect("current exe");
            let mut child = match std::process::Command::new(exe).args(["replay", &prop, &path]).env("VERIF_REPLAY_TIMEOUT_SECS", "100000").stdout(std::process::Stdio::null()).stderr(std::process::Stdio::null()).spawn() {
                Ok(c) => c,
                Err(_) => {
                    excused.push(id);
                    continue;
                }
            };
            let c0 = Instant::now();
            let mut finished = false;
            while c0.elapsed() < limit * 3 {
                if let Ok(Some(_)) = child.try_wait() {
                    finished = true;
                    break;
                }
                std::thread::sleep(Duration::from_millis(200));
            }
            if finished {
                // slow, not stuck (or it returned meanwhile here as well)
                excused.push(id);
                let _ = std::fs::remove_file(&path);
                continue;
            }
            let _ = child.kill();
            let _ = child.wait();
            let violation = prop == "C20";
            stats.frozen.store(true, Ordering::Relaxed);
            let spec = EvidenceSpec {
                prop: &prop,
                tier: &tier,
                seed,
                rule: "run aborted by the case watchdog: a generated in-process case does not terminate (confirmed in a child process)",
                assumptions: vec![],
                extra: serde_json::json!({"aborted_by_watchdog": {"replay": path, "engine": engine, "limit_s": limit.as_secs()}}),
            };
            write_evidence(&spec, stats, t0.elapsed(), violation as usize);
            if violation {
                println!("counterexample: {} and again in a fresh process after {} s: an operation of this history never completes (deterministic, single-threaded replay)", msg, (limit * 3).as_secs());
                println!("VIOLATION property={} replay={}", prop, path);
                std::process::exit(1);
            } else {
                println!("INCONCLUSIVE property={} {} and again in a fresh process: the code under test does not terminate on {} (nothing can be decided about {} on this tree)", prop, msg, path, prop);
                std::process::exit(2);
            }
        }
    });
}

pub fn write_replay_value(prop: &str, engine: &str, case: &serde_json::Value, failure: &str) -> String {
    write_replay(prop, engine, case, failure)
}
