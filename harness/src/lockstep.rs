//! E1/E2: lock-step interpreter over a parked cache, a reference model, and the oracles.
//!
//! A case is `Config x Vec<Op>`. The interpreter executes every op against the system under test
//! (sync or async parked cache, virtual clock) and against the model, and evaluates predicates.
//! Each predicate failure names the properties it speaks for; a property's check only reports
//! failures that name it.
use crate::clock;
use crate::common::*;
use crate::sut::*;
use serde::{Deserialize, Serialize};
use std::collections::{BTreeMap, BTreeSet, HashMap, VecDeque};
use std::time::Duration;

// ------------------------------------------------------------------------------------------
// case
// ------------------------------------------------------------------------------------------

#[derive(Clone, Copy, Debug, PartialEq, Eq, Serialize, Deserialize, Hash)]
pub enum Flavour {
    Sync,
    Async,
}

#[derive(Clone, Copy, Debug, PartialEq, Eq, Serialize, Deserialize, Hash)]
pub enum Mode {
    /// the interpreter lets the cache quiesce after every client op
    Quiescent,
    /// processor steps happen only where generated
    Schedule,
}

#[derive(Clone, Debug, PartialEq, Eq, Serialize, Deserialize, Hash)]
pub struct Config {
    pub flavour: Flavour,
    pub mode: Mode,
    pub max_cost: i64,
    pub num_counters: usize,
    pub buffer_size: usize,
    pub buffer_items: usize,
    pub ignore_internal_cost: bool,
    pub metrics: bool,
    pub validator: Validator,
    /// logical key i -> (index, conflict)
    pub keys: Vec<(u64, u64)>,
    /// offset of the start instant inside its second
    pub start_ns: i64,
    /// periodic cleanup: (interval, phase) in ns; None = ticks only where generated
    pub tick: Option<(i64, i64)>,
    /// call order of the builder's setters (see sut.rs)
    #[serde(default)]
    pub order: u8,
    /// built with the builder's own key builder, coster and update validator (`keys` then holds what
    /// DefaultKeyBuilder computes for 0..n, the validator is `Always`, the Coster values everything 0)
    #[serde(default)]
    pub defaults: bool,
    /// the first clear() and the first wait() of the case find the processor busy elsewhere for
    /// this many milliseconds of *real* time (sync flavour; rare: each such case costs that long)
    #[serde(default)]
    pub patience_ms: u64,
}

#[derive(Clone, Debug, PartialEq, Eq, Serialize, Deserialize, Hash)]
pub enum Adv {
    Ns(i64),
    /// to the next second boundary plus delta (delta in -1..=1 typically)
    NextSecond(i64),
    /// to the deadline of logical key k (if it has one) plus delta
    Deadline(u64, i64),
    /// to the second in which the i-th deadline ever set (also of overwritten, removed or
    /// cleared entries) comes due for cleanup, plus delta
    OldDeadline(u8, i64),
}

#[derive(Clone, Debug, PartialEq, Eq, Serialize, Deserialize, Hash)]
pub enum Op {
    Insert { k: u64, cost: i64, ttl: i64, tag: u32 },
    InsertIfPresent { k: u64, cost: i64, tag: u32 },
    Remove { k: u64 },
    Get { k: u64 },
    GetMut { k: u64, write: Option<u32> },
    GetTtl { k: u64 },
    /// look up, keep the ValueRef while the clock advances by dt, read its ttl again
    GetHold { k: u64, dt: i64 },
    /// n lookups of n distinct keys that are never written (misses), each batch applied by the
    /// policy worker as soon as it is queued
    GetWide { n: u16, base: u16 },
    /// n inserts (cost 1, the given TTL) of n distinct keys outside the key table; the buffer is
    /// drained every 32 inserts
    BulkWide { n: u16, ttl: i64 },
    UpdateMaxCost { m: i64 },
    /// `pre`: insert-arm steps the processor takes before the clear arm, should clear() wait
    Clear { pre: usize },
    Wait,
    Advance(Adv),
    ProcInsert,
    ProcClear,
    Tick,
    PolicyStep,
    Drain { clear_first: bool },
    /// n inserts (cost 1, no TTL) round-robin over the keys, issued back to back
    Bulk { n: u32 },
    /// E2: run `actions` at the `nth` occurrence of yield point `at` while `then` executes
    Interpose { at: String, nth: usize, actions: Vec<Op>, then: Box<Op> },
}

#[derive(Clone, Debug, PartialEq, Eq, Serialize, Deserialize, Hash)]
pub struct Case {
    pub cfg: Config,
    pub ops: Vec<Op>,
}

// ------------------------------------------------------------------------------------------
// features (for the non-triviality rules and class histograms)
// ------------------------------------------------------------------------------------------

#[derive(Clone, Debug, Default, Serialize)]
pub struct Feats {
    pub patient_clears: u32,
    pub patient_waits: u32,
    pub steps: u32,
    pub admissions: u32,
    pub admissions_with_eviction: u32,
    pub multi_victim: u32,
    pub pop_rejections: u32,
    pub oversize_rejections: u32,
    pub dup_new_rejections: u32,
    pub updates: u32,
    pub cost_raising_updates: u32,
    pub cost_changing_updates: u32,
    pub over_budget_then_admit: u32,
    pub max_cost_lowered_then_admit: u32,
    pub coster_writes: u32,
    pub lookups: u32,
    pub hits: u32,
    pub lookup_after_rewrite: u32,
    pub ttl_boundary_lookups: u32,
    pub ttl_switches: u32,
    pub ttl_switch_then_tick: u32,
    pub ticks: u32,
    pub reclaimed: u32,
    pub shared_bucket_updates: u32,
    pub boundary_deadlines: u32,
    pub removes_hit: u32,
    pub removes_inflight: u32,
    pub updates_inflight: u32,
    pub clears: u32,
    pub clears_with_pending: u32,
    pub key_reused_after_clear: u32,
    pub ttl_key_reused_after_clear: u32,
    pub iip_absent: u32,
    pub iip_absent_interesting: u32,
    pub iip_resident: u32,
    pub vetoes: u32,
    pub vetoes_ttl: u32,
    pub dropped_sets: u32,
    pub waits: u32,
    pub waits_with_pending: u32,
    pub batches_flushed: u32,
    pub batches_dropped: u32,
    pub batches_with_miss: u32,
    pub window_resets: u32,
    pub collide_ops_while_partner_resident: u32,
    pub interposed: u32,
    pub interposed_same_key: u32,
    pub desynced: bool,
    pub cost_decreasing_updates: u32,
    pub getmut_writes: u32,
    pub long_tick_period: bool,
    pub errs: u32,
    pub evict_then_reject: u32,
}

// ------------------------------------------------------------------------------------------
// model
// ------------------------------------------------------------------------------------------

#[derive(Clone, Debug, PartialEq, Eq)]
struct MEntry {
    conflict: u64,
    val: Val,
    created: i64,
    ttl: i64,
}

impl MEntry {
    fn deadline(&self) -> Option<i64> {
        if self.ttl == 0 {
            None
        } else {
            Some(self.created.saturating_add(self.ttl))
        }
    }
    fn expired(&self, now: i64) -> bool {
        self.ttl != 0 && now - self.created >= self.ttl
    }
}

#[derive(Clone, Debug)]
enum MItem {
    New { index: u64, conflict: u64, cost: i64, val: Val, created: i64, ttl: i64 },
    Update { index: u64, cost: i64, ext: i64, iip: bool },
    Delete { index: u64, conflict: u64, kills: Vec<Val> },
    Wait,
}

#[derive(Clone, Debug, Default)]
struct MMetrics {
    hits: u64,
    misses: u64,
    keys_added: u64,
    keys_updated: u64,
    keys_evicted: u64,
    cost_added: u64,
    cost_evicted: u64,
    sets_dropped: u64,
    sets_rejected: u64,
    gets_dropped: u64,
    gets_kept: u64,
    hist: i64,
}

#[derive(Clone, Debug, Default)]
struct ValInfo {
    key: u64,
    /// epoch (number of clear() calls returned) when the value was accepted
    epoch: u32,
    exits: u8,
    evicts: u8,
    rejects: u8,
    /// accepted through get_mut, or overwritten in place by get_mut: outside C08
    in_place: bool,
    /// a remove/clear that took effect after it was written
    dead: bool,
    /// written by an interposed action while a clear() was under way: may survive it or be
    /// dropped by it without callback
    lenient: bool,
    /// virtual time of the write and the TTL given (0 = none)
    written_at: i64,
    ttl: i64,
}

struct Model {
    now: i64,
    store: BTreeMap<u64, MEntry>,
    policy: BTreeMap<u64, i64>,
    max_cost: i64,
    pending: VecDeque<MItem>,
    ring: Vec<u64>,
    ring_miss: bool,
    pq: VecDeque<Vec<u64>>,
    ideal: HashMap<u64, u32>,
    w: usize,
    m: MMetrics,
    tracked: BTreeSet<u64>,
    /// the model mirrors the implementation step by step while this is true
    synced: bool,
    /// last admission happened with used <= max_cost; slack added since (C01)
    slack: i64,
    lowered_since_admit: bool,
    raised_since_admit: bool,
    /// the combined cost has exceeded max_cost at some point of the history (premise of C04 gone)
    over_seen: bool,
}

impl Model {
    fn used(&self) -> i64 {
        self.policy.values().sum()
    }
}

// ------------------------------------------------------------------------------------------
// interpreter
// ------------------------------------------------------------------------------------------

/// what an interposed action did (recorded inside the yield hook, absorbed afterwards)
#[derive(Clone, Debug)]
pub enum NObs {
    Ins { k: u64, v: Val, ttl: i64, r: Result<bool, String> },
    Rem { k: u64, r: Result<(), String> },
    Get { k: u64, got: Option<Val> },
    Step(String),
    Cleared(Result<(), String>),
}

pub struct Report {
    pub failures: Vec<Failure>,
    pub feats: Feats,
    pub trace: Vec<String>,
    /// indices (into case.ops) of the inserts the validator vetoed
    pub vetoed_ops: Vec<usize>,
}

const P_C01: &[&str] = &["C01"];
const P_C02: &[&str] = &["C02"];
const P_C06: &[&str] = &["C06"];
const P_C08: &[&str] = &["C08"];
const P_C16: &[&str] = &["C16"];
const P_C17: &[&str] = &["C17"];
const P_C15: &[&str] = &["C15"];
const P_C09: &[&str] = &["C09"];

pub struct Interp<'a> {
    cfg: &'a Config,
    sut: std::rc::Rc<dyn Sut>,
    nested: std::rc::Rc<std::cell::RefCell<Vec<NObs>>>,
    m: Model,
    vals: HashMap<Val, ValInfo>,
    /// accepted values per logical key, in write order (for remove kills)
    written: HashMap<u64, Vec<Val>>,
    epoch: u32,
    serial: std::rc::Rc<std::cell::Cell<u32>>,
    step: usize,
    pub failures: Vec<Failure>,
    pub feats: Feats,
    internal: i64,
    trace: Vec<String>,
    want_trace: bool,
    last_tick_at: Option<i64>,
    next_tick: Option<i64>,
    /// keys whose TTL-ness was switched by a re-insert and not yet ticked over
    switched: BTreeSet<u64>,
    /// keys written before the latest clear and not rewritten since
    stale_after_clear: BTreeSet<u64>,
    ttl_before_clear: BTreeSet<u64>,
    /// keys removed/evicted/expired and then rewritten (for C02 non-triviality)
    rewritten_after_loss: BTreeSet<u64>,
    lost_once: BTreeSet<u64>,
    lookups_since_clear: u64,
    /// a lookup ran concurrently with a clear(): on which side of the counter reset it fell is not known
    lookups_uncertain: bool,
    policy_diverged: bool,
    /// (index, creation instant) of TTL entries the last sweep left behind although they were due
    overdue_survivors: BTreeSet<(u64, i64)>,
    /// C04, independent of the detailed model: key -> (value, deadline or 0) as a plain map with
    /// TTLs would hold it; only kept while the premise of C04 holds by construction (`smap_on`)
    smap: BTreeMap<u64, (Val, i64)>,
    smap_on: bool,
    patience_left: u64,
    wait_patience_left: u64,
    /// when the metrics last restarted from zero (construction, clear())
    metrics_since: i64,
    metrics_bad_before_clear: bool,
    interposed_then_clear: bool,
    interposed_before_check: bool,
    interposed_then_lookup: bool,
    all_deadlines: Vec<i64>,
    interposed_serial_base: u32,
    in_interposed_op: bool,
    pub cur_op: usize,
    /// (conflict, value) per resident index at the previous invariant check
    last_entries: BTreeMap<u64, (u64, Val)>,
    /// the running op may replace a value only through one validated write
    repl_check: bool,
    vetoed_ops: Vec<usize>,
    /// values written before a remove() that returned Ok: dead at the next quiescent point at the latest
    kills_at_quiescence: Vec<Val>,
    any_err: bool,
    /// stop evaluating (something voided the rest of the case)
    halted: bool,
}

/// A TTL of i64::MAX ns stands for the largest TTL whose deadline the expiry index of the unchanged
/// tree still computes: i64::MAX *seconds* (its remaining time never runs out within a case).
pub const HUGE_TTL: i64 = i64::MAX;

fn dur(ns: i64) -> Duration {
    if ns == HUGE_TTL {
        return Duration::from_secs(i64::MAX as u64);
    }
    Duration::from_nanos(ns.max(0) as u64)
}

/// what get_ttl / ValueRef::ttl must report for an entry written with `ttl` at `created`
fn remaining(ttl: i64, created: i64, now: i64) -> Duration {
    if ttl == HUGE_TTL {
        return Duration::from_secs(i64::MAX as u64) - Duration::from_nanos((now - created).max(0) as u64);
    }
    dur(ttl - (now - created))
}

fn dur_ns(d: Duration) -> i64 {
    d.as_nanos().min(i64::MAX as u128) as i64
}

fn st_ns(t: std::time::SystemTime) -> i64 {
    t.duration_since(std::time::UNIX_EPOCH)
        .map(|d| d.as_nanos() as i64)
        .unwrap_or(-1)
}

impl<'a> Interp<'a> {
    pub fn new(cfg: &'a Config, want_trace: bool) -> Result<Self, String> {
        let now = T0 + cfg.start_ns;
        clock::set_thread(Some(now));
        let b = BuildCfg {
            num_counters: cfg.num_counters,
            max_cost: cfg.max_cost,
            buffer_size: cfg.buffer_size,
            buffer_items: cfg.buffer_items,
            ignore_internal_cost: cfg.ignore_internal_cost,
            metrics: cfg.metrics,
            validator: cfg.validator,
            keys: cfg.keys.clone(),
            order: cfg.order,
        };
        let sut: std::rc::Rc<dyn Sut> = match (cfg.flavour, cfg.defaults) {
            (Flavour::Sync, false) => std::rc::Rc::new(SyncSut::build(&b).map_err(|e| e.to_string())?),
            (Flavour::Async, false) => std::rc::Rc::new(AsyncSut::build(&b).map_err(|e| e.to_string())?),
            (Flavour::Sync, true) => std::rc::Rc::new(crate::sut::SyncSutDefaults::build_defaults(&b).map_err(|e| e.to_string())?),
            (Flavour::Async, true) => std::rc::Rc::new(crate::sut::AsyncSutDefaults::build_defaults(&b).map_err(|e| e.to_string())?),
        };
        let internal = if cfg.ignore_internal_cost {
            0
        } else {
            sut.item_size() as i64
        };
        let next_tick = cfg.tick.map(|(i, ph)| now + (ph % i.max(1)));
        let mut feats = Feats::default();
        if let Some((i, _)) = cfg.tick {
            feats.long_tick_period = i > NS;
        }
        // ample room, buffer drained after every client operation, no validator vetoes, distinct
        // indices: the premise of C04 holds whatever the history is
        let smap_on = cfg.mode == Mode::Quiescent && cfg.max_cost >= 1 << 40 && cfg.validator == Validator::Always && cfg.buffer_size >= 8 && {
            let mut idx: Vec<u64> = cfg.keys.iter().map(|k| k.0).collect();
            idx.sort_unstable();
            !idx.windows(2).any(|w| w[0] == w[1])
        };
        let patience_left = cfg.patience_ms;
        Ok(Interp {
            cfg,
            sut,
            nested: Default::default(),
            m: Model {
                now,
                store: BTreeMap::new(),
                policy: BTreeMap::new(),
                max_cost: cfg.max_cost,
                pending: VecDeque::new(),
                ring: Vec::new(),
                ring_miss: false,
                pq: VecDeque::new(),
                ideal: HashMap::new(),
                w: 0,
                m: MMetrics::default(),
                tracked: BTreeSet::new(),
                synced: true,
                slack: 0,
                lowered_since_admit: false,
                raised_since_admit: false,
                over_seen: false,
            },
            vals: HashMap::new(),
            written: HashMap::new(),
            epoch: 0,
            serial: Default::default(),
            step: 0,
            failures: Vec::new(),
            feats,
            internal,
            trace: Vec::new(),
            want_trace,
            last_tick_at: None,
            next_tick,
            switched: BTreeSet::new(),
            stale_after_clear: BTreeSet::new(),
            ttl_before_clear: BTreeSet::new(),
            rewritten_after_loss: BTreeSet::new(),
            lost_once: BTreeSet::new(),
            lookups_since_clear: 0,
            lookups_uncertain: false,
            policy_diverged: false,
            overdue_survivors: BTreeSet::new(),
            smap: BTreeMap::new(),
            smap_on,
            patience_left,
            wait_patience_left: patience_left,
            metrics_since: now,
            metrics_bad_before_clear: false,
            interposed_then_clear: false,
            interposed_before_check: false,
            interposed_then_lookup: false,
            all_deadlines: Vec::new(),
            interposed_serial_base: 0,
            in_interposed_op: false,
            cur_op: 0,
            last_entries: BTreeMap::new(),
            repl_check: false,
            vetoed_ops: Vec::new(),
            kills_at_quiescence: Vec::new(),
            any_err: false,
            halted: false,
        })
    }

    fn fail(&mut self, pred: &'static str, props: &'static [&'static str], msg: String) {
        // a broken history can fail at every later step: keep the first failures of each predicate only, and stop
        // executing once there are plenty (memory and time on cases with tens of thousands of steps)
        if self.failures.iter().filter(|f| f.pred == pred).count() >= 12 {
            return;
        }
        if self.failures.len() >= 400 {
            self.halted = true;
            return;
        }
        if self.want_trace {
            self.trace.push(format!("  !! {} {:?}: {}", pred, props, msg));
        }
        self.failures.push(Failure {
            pred,
            props,
            step: self.step,
            msg,
        });
    }

    fn tr(&mut self, s: impl FnOnce() -> String) {
        if self.want_trace {
            let t = self.m.now - T0;
            self.trace.push(format!("[{:3}] t={}.{:09} {}", self.step, t / NS, t % NS, s()));
        }
    }

    fn key(&self, k: u64) -> (u64, u64) {
        if k >= WIDE {
            return wide_index(k);
        }
        self.cfg.keys[(k as usize) % self.cfg.keys.len()]
    }

    fn nkeys(&self) -> u64 {
        self.cfg.keys.len() as u64
    }

    fn charge(&self, cost: i64) -> i64 {
        cost + self.internal
    }

    fn desync(&mut self, why: &str) {
        if self.m.synced {
            self.m.synced = false;
            self.feats.desynced = true;
            let why = why.to_string();
            self.tr(|| format!("-- model desynchronised: {} (invariant oracles only from here)", why));
        }
    }

    fn new_val(&mut self, k: u64, tag: u32) -> Val {
        self.serial.set(self.serial.get() + 1);
        Val {
            key: k as u32,
            serial: self.serial.get(),
            tag,
        }
    }

    /// take over what interposed actions did: register the values they wrote, check what
    /// their lookups returned
    fn absorb_nested(&mut self) {
        let obs: Vec<NObs> = std::mem::take(&mut *self.nested.borrow_mut());
        // a lookup concurrent with a clear(): the side of the counter reset it fell on is unknown
        let has_clear = self.interposed_then_clear || obs.iter().any(|o| matches!(o, NObs::Cleared(_)));
        let has_lookup = self.interposed_then_lookup || obs.iter().any(|o| matches!(o, NObs::Get { .. }));
        if !obs.is_empty() && has_clear && has_lookup {
            self.lookups_uncertain = true;
        }
        for o in obs {
            match o {
                NObs::Ins { k, v, ttl, r } => {
                    self.tr(|| format!("    (interposed) insert(k{}, {}, ttl {}ns) = {:?}", k, v, ttl, r));
                    if ttl > 0 {
                        self.all_deadlines.push(self.m.now.saturating_add(ttl));
                    }
                    match r {
                        Ok(true) => self.accept_ttl(k, v, false, ttl),
                        Ok(false) => {}
                        Err(_) => {
                            self.any_err = true;
                            self.feats.errs += 1;
                        }
                    }
                }
                NObs::Rem { k, r } => {
                    self.tr(|| format!("    (interposed) remove(k{}) = {:?}", k, r));
                    if r.is_err() {
                        self.any_err = true;
                        self.feats.errs += 1;
                    }
                }
                NObs::Get { k, got } => {
                    self.tr(|| format!("    (interposed) get(k{}) = {:?}", k, got));
                    self.lookups_since_clear += 1;
                    if let Some(v) = got {
                        if v.key as u64 != k {
                            self.fail("lookup_other_key", &["C02", "C18"], format!("interposed lookup of key {} returned {}", k, v));
                        } else if !self.vals.contains_key(&v) {
                            self.fail("lookup_unaccepted", P_C02, format!("interposed lookup of key {} returned {} which no insert accepted", k, v));
                        }
                    }
                }
                NObs::Step(what) => {
                    self.tr(|| format!("    (interposed) {}", what));
                }
                NObs::Cleared(r) => {
                    self.tr(|| format!("    (interposed) clear() = {:?}", r));
                    self.epoch += 1;
                    let epoch = self.epoch;
                    let from = self.interposed_serial_base;
                    for (v, info) in self.vals.iter_mut() {
                        if v.serial > from {
                            // written by the interposed op or its actions: concurrent with this clear
                            info.epoch = epoch;
                            info.lenient = true;
                        } else {
                            info.dead = true;
                        }
                    }
                    self.lookups_since_clear = 0;
                    self.metrics_since = self.m.now;
                    if r.is_err() {
                        self.any_err = true;
                    }
                }
            }
        }
    }

    fn accept(&mut self, k: u64, v: Val, in_place: bool) {
        self.accept_ttl(k, v, in_place, -1);
    }

    /// ttl < 0: unknown (in-place writes keep the entry's deadline)
    fn accept_ttl(&mut self, k: u64, v: Val, in_place: bool, ttl: i64) {
        self.vals.insert(
            v,
            ValInfo {
                key: k,
                epoch: self.epoch,
                in_place,
                written_at: self.m.now,
                ttl,
                ..Default::default()
            },
        );
        self.written.entry(k).or_default().push(v);
        self.stale_after_clear.remove(&k);
        if self.lost_once.contains(&k) {
            self.rewritten_after_loss.insert(k);
        }
    }

    // ---------------------------------------------------------------- callbacks bookkeeping

    /// record callback events in the value ledger; flags double reports right away
    fn note_events(&mut self, log: &[Ev]) {
        self.absorb_nested();
        for e in log {
            match e {
                Ev::Empty(which) => {
                    self.fail("callback_without_value", P_C08, format!("{} callback without a value", which));
                }
                _ => {
                    let v = e.val().unwrap();
                    let mut double = None;
                    match self.vals.get_mut(&v) {
                        None => {
                            self.fail(
                                "callback_unknown_value",
                                P_C08,
                                format!("callback {:?} for a value no insert accepted", e),
                            );
                        }
                        Some(info) => {
                            match e {
                                Ev::Exit(_) => info.exits += 1,
                                Ev::Evict(..) => info.evicts += 1,
                                Ev::Reject(..) => info.rejects += 1,
                                _ => {}
                            }
                            if !info.in_place && info.exits + info.evicts + info.rejects > 1 {
                                double = Some(format!(
                                    "value {} handed to callbacks more than once (exit {}, evict {}, reject {})",
                                    v, info.exits, info.evicts, info.rejects
                                ));
                            }
                            self.lost_once.insert(info.key);
                        }
                    }
                    if let Some(m) = double {
                        self.fail("callback_twice", P_C08, m);
                    }
                }
            }
        }
    }

    /// compare the callbacks a step produced with what the model expects
    fn expect_events(&mut self, what: &str, log: &[Ev], expected: &[Ev]) {
        self.note_events(log);
        if !self.m.synced {
            return;
        }
        let mut rest: Vec<&Ev> = log.iter().collect();
        for e in expected {
            if let Some(p) = rest.iter().position(|a| *a == e) {
                rest.remove(p);
                continue;
            }
            // same kind + value but different details?
            let same_kind_val = rest.iter().position(|a| {
                std::mem::discriminant(*a) == std::mem::discriminant(e) && a.val() == e.val()
            });
            if let Some(p) = same_kind_val {
                let a = rest.remove(p).clone();
                let (ac, ec) = (ev_cost(&a), ev_cost(e));
                if ac != ec {
                    // (C05 speaks of the cost handed over for an *expired* entry only)
                    let props: &'static [&'static str] = if what == "cleanup tick" { &["C16", "C05"] } else { &["C16"] };
                    self.fail(
                        "callback_cost",
                        props,
                        format!("{}: callback {:?} reports cost {:?}, the charged cost is {:?}", what, a, ac, ec),
                    );
                } else {
                    self.fail(
                        "callback_details",
                        &["C08", "C19"],
                        format!("{}: callback {:?}, expected {:?}", what, a, e),
                    );
                }
                continue;
            }
            let other_kind = rest.iter().position(|a| a.val() == e.val());
            if let Some(p) = other_kind {
                let a = rest.remove(p).clone();
                self.fail(
                    "callback_kind",
                    &["C08", "C05", "C19"],
                    format!("{}: value left through {:?}, expected {:?}", what, a, e),
                );
                continue;
            }
            self.fail(
                "callback_missing",
                &["C08", "C05", "C19"],
                format!("{}: expected callback {:?} did not happen (log {:?})", what, e, log),
            );
        }
        for a in rest {
            self.fail(
                "callback_unexpected",
                &["C08", "C04", "C19"],
                format!("{}: unexpected callback {:?}", what, a),
            );
        }
    }

    // ---------------------------------------------------------------- snapshots

    /// invariants that need no model
    fn check_invariants(&mut self, what: &str) {
        let snap = self.sut.snapshot();
        // C09, model-free: between two checks at most one write happened (a client insert or one
        // processor item); if a resident value was replaced in place, the validator must have
        // agreed to that replacement
        if self.repl_check && what == "after step" {
            let mut bad: Vec<String> = Vec::new();
            for e in snap.entries.iter() {
                if let Some((cf, old)) = self.last_entries.get(&e.index) {
                    if *cf == e.conflict && *old != e.value && !self.cfg.validator.ok(old, &e.value) {
                        bad.push(format!("index {} went from {} to {} although the validator {:?} vetoes that replacement", e.index, old, e.value, self.cfg.validator));
                    }
                }
            }
            for m in bad {
                self.fail("replacement_against_validator", &["C09"], format!("{}: {}", what, m));
            }
        }
        self.last_entries = snap.entries.iter().map(|e| (e.index, (e.conflict, e.value))).collect();
        let sum: i64 = snap.costs.iter().map(|(_, c)| *c).sum();
        if sum != snap.used {
            self.fail(
                "used_eq_sum",
                P_C01,
                format!("{}: charged total {} != sum of per-entry charges {}", what, snap.used, sum),
            );
        }
        let api_len = self.sut.len();
        if api_len != snap.entries.len() {
            self.fail("len_eq_entries", P_C06, format!("{}: Cache::len() {} != resident entries {}", what, api_len, snap.entries.len()));
        }
        if snap.len != snap.entries.len() {
            self.fail(
                "len_eq_entries",
                P_C06,
                format!("{}: len() {} != resident entries {}", what, snap.len, snap.entries.len()),
            );
        }
        let (pi, pc, _) = self.sut.pending();
        let quiescent = pi == 0 && pc == 0;
        if quiescent {
            for v in std::mem::take(&mut self.kills_at_quiescence) {
                if let Some(i) = self.vals.get_mut(&v) {
                    i.dead = true;
                }
            }
            // C02: nothing written before a remove/clear that has taken effect is resident
            let stale = snap.entries.iter().find(|e| self.vals.get(&e.value).map(|i| i.dead && !i.in_place).unwrap_or(false)).map(|e| e.value);
            if let Some(v) = stale {
                self.fail("stale_resident", &["C02"], format!("{}: quiescent, value {} is resident although a remove/clear issued after it was written has taken effect", what, v));
            }
            // C04, against a plain map with TTLs (kept only while ample room, a drained buffer and
            // an always-accepting validator make the premise hold by construction): whatever an
            // insert accepted and nothing removed, cleared or outlived is resident with that value
            if self.smap_on && !self.any_err {
                let now = self.m.now;
                let mut bad = None;
                for (k, (v, dl)) in self.smap.iter() {
                    if *dl != 0 && *dl <= now {
                        continue;
                    }
                    let (index, _) = self.key(*k);
                    match snap.entries.iter().find(|e| e.index == index) {
                        Some(e) if e.value == *v => {}
                        other => {
                            bad = Some(format!(
                                "{}: quiescent and far below capacity, key {} was accepted with {} ({}) and neither removed nor cleared since, but the store holds {:?} under its index",
                                what,
                                k,
                                v,
                                if *dl == 0 { "no TTL".to_string() } else { format!("{}ns of TTL left", dl - now) },
                                other.map(|e| e.value)
                            ));
                            break;
                        }
                    }
                }
                if let Some(m) = bad {
                    self.fail("plain_map_entry_missing", &["C04"], m);
                    self.smap_on = false;
                }
            }
            // C06
            if !self.any_err {
                let sk: Vec<u64> = snap.entries.iter().map(|e| e.index).collect();
                let pk: Vec<u64> = snap.costs.iter().map(|(k, _)| *k).collect();
                if sk != pk {
                    self.fail(
                        "store_eq_policy",
                        P_C06,
                        format!("{}: quiescent, resident keys {:?} != charged keys {:?}", what, sk, pk),
                    );
                    // C01 bounds the cost of the *resident* entries through their charges: an entry
                    // that is resident without being charged is outside that bound
                    let free: Vec<u64> = sk.iter().copied().filter(|k| !pk.contains(k)).collect();
                    // ... and a charge that belongs to no resident entry while the total is above
                    // max_cost: the excess was not added by in-place updates of resident keys
                    let ghosts: Vec<u64> = pk.iter().copied().filter(|k| !sk.contains(k)).collect();
                    if !ghosts.is_empty() && snap.used > snap.max_cost {
                        self.fail(
                            "over_budget_with_ghost_charge",
                            P_C01,
                            format!("{}: quiescent, charged total {} exceeds max_cost {} and keys {:?} are charged without being resident", what, snap.used, snap.max_cost, ghosts),
                        );
                    }
                    if !free.is_empty() {
                        self.fail(
                            "resident_uncharged",
                            &["C01", "C16"],
                            format!("{}: quiescent, entries {:?} are resident but not charged: their cost is not counted against max_cost {}", what, free, snap.max_cost),
                        );
                    }
                }
            }
            // C08 conservation
            let resident: BTreeSet<Val> = snap.entries.iter().map(|e| e.value).collect();
            let mut bad: Vec<String> = Vec::new();
            for (v, info) in self.vals.iter() {
                if info.in_place {
                    continue;
                }
                let n = resident.contains(v) as u8 + info.exits + info.evicts + info.rejects;
                if n > 1 {
                    bad.push(format!(
                        "{} accounted {} times (resident {}, exit {}, evict {}, reject {})",
                        v,
                        n,
                        resident.contains(v),
                        info.exits,
                        info.evicts,
                        info.rejects
                    ));
                } else if n == 0 && info.epoch == self.epoch && !info.lenient {
                    bad.push(format!("{} accepted but neither resident nor handed to a callback", v));
                }
            }
            bad.sort();
            if let Some(b) = bad.first() {
                let b = b.clone();
                self.fail("callback_conservation", P_C08, format!("{}: quiescent, {}", what, b));
            }
            // C11 / C02: nothing written before the latest clear is resident
            for e in snap.entries.iter() {
                if let Some(info) = self.vals.get(&e.value) {
                    if info.epoch < self.epoch {
                        let msg = format!(
                            "{}: quiescent, value {} written before the latest clear() is resident",
                            what, e.value
                        );
                        self.fail("clear_empties", &["C11", "C02"], msg);
                        break;
                    }
                }
            }
        }
        // values resident under the wrong index
        for e in snap.entries.iter() {
            // (a value carries the low 32 bits of its logical key; keys outside the table start at 1e6)
            let logical = if e.value.key >= 1_000_000 { WIDE + e.value.key as u64 } else { e.value.key as u64 };
            let (idx, _) = self.key(logical);
            if idx != e.index {
                let msg = format!("{}: value {} stored under index {}", what, e.value, e.index);
                self.fail("value_under_wrong_key", &["C02", "C18"], msg);
            }
        }
        // metrics laws that need no model
        if let Some(mv) = self.sut.metrics() {
            if quiescent {
                if mv.keys_added.wrapping_sub(mv.keys_evicted) != snap.costs.len() as u64 {
                    self.fail(
                        "metrics_keys",
                        P_C17,
                        format!(
                            "{}: keys_added {} - keys_evicted {} != charged entries {}",
                            what,
                            mv.keys_added,
                            mv.keys_evicted,
                            snap.costs.len()
                        ),
                    );
                }
                if mv.cost_added.wrapping_sub(mv.cost_evicted) != snap.used as u64 {
                    self.fail(
                        "metrics_cost",
                        P_C17,
                        format!(
                            "{}: cost_added {} - cost_evicted {} != charged total {}",
                            what, mv.cost_added, mv.cost_evicted, snap.used
                        ),
                    );
                }
            }
            if !self.lookups_uncertain && mv.hits + mv.misses != self.lookups_since_clear {
                self.fail(
                    "metrics_lookups",
                    P_C17,
                    format!(
                        "{}: hits {} + misses {} != lookups {}",
                        what, mv.hits, mv.misses, self.lookups_since_clear
                    ),
                );
            }
            let r = if mv.hits + mv.misses == 0 {
                0.0
            } else {
                mv.hits as f64 / (mv.hits + mv.misses) as f64
            };
            if (mv.ratio - r).abs() > 1e-12 {
                self.fail("metrics_ratio", P_C17, format!("{}: ratio {} != {}", what, mv.ratio, r));
            }
            // no recorded lifetime is longer than the time since the counters last restarted (at
            // construction or at clear()): a sample can only stem from an admission after that
            let age_s = (self.m.now - self.metrics_since) / NS;
            if mv.hist_count > 0 && mv.hist_max > age_s {
                self.fail(
                    "histogram_lifetime",
                    &["C11", "C17"],
                    format!("{}: the life-expectancy histogram holds a lifetime of {} s, but the counters restarted only {} s ago", what, mv.hist_max, age_s),
                );
            }
            if mv.hist_count != mv.hist_bucket_sum {
                self.fail(
                    "hist_count_eq_buckets",
                    P_C17,
                    format!("{}: histogram count {} != sum of buckets {}", what, mv.hist_count, mv.hist_bucket_sum),
                );
            }
        }
        if self.want_trace {
            let mv = self.sut.metrics();
            let line = format!(
                "  state: entries {:?} costs {:?} used {} max {} len {} pending {:?} metrics {:?}",
                snap.entries.iter().map(|e| (e.index, e.conflict, e.value.serial, dur_ns(e.ttl), st_ns(e.created_at) - T0)).collect::<Vec<_>>(),
                snap.costs,
                snap.used,
                snap.max_cost,
                snap.len,
                self.sut.pending().0,
                mv.map(|m| (m.hits, m.misses, m.keys_added, m.keys_updated, m.keys_evicted, m.cost_added, m.cost_evicted, m.sets_dropped, m.sets_rejected, m.hist_count)),
            );
            self.trace.push(line);
        }
        if self.m.synced {
            self.compare_model(what, &snap);
        }
    }

    /// full comparison of the model with the snapshot (only while synced)
    fn compare_model(&mut self, what: &str, snap: &stretto::verif::Snapshot<Val>) {
        // max cost
        if snap.max_cost != self.m.max_cost {
            self.fail(
                "max_cost_effective",
                P_C01,
                format!("{}: max_cost() {} != last update_max_cost {}", what, snap.max_cost, self.m.max_cost),
            );
        }
        // store
        let sm: BTreeMap<u64, MEntry> = snap
            .entries
            .iter()
            .map(|e| {
                (
                    e.index,
                    MEntry {
                        conflict: e.conflict,
                        val: e.value,
                        created: st_ns(e.created_at),
                        ttl: dur_ns(e.ttl),
                    },
                )
            })
            .collect();
        if sm != self.m.store {
            let mut msgs: Vec<(&'static str, &'static [&'static str], String)> = Vec::new();
            for (k, me) in self.m.store.iter() {
                match sm.get(k) {
                    None => {
                        let props: &'static [&'static str] = if me.expired(self.m.now) {
                            &["C05"]
                        } else {
                            &["C02", "C03", "C04", "C11", "C18", "C19"]
                        };
                        msgs.push(("entry_lost", props, format!("{}: entry index {} ({}) is gone from the store", what, k, me.val)));
                    }
                    Some(se) => {
                        if se.val != me.val || se.conflict != me.conflict {
                            msgs.push((
                                "entry_value",
                                &["C02", "C09", "C18", "C19"],
                                format!("{}: index {} holds {} (conflict {}), expected {} (conflict {})", what, k, se.val, se.conflict, me.val, me.conflict),
                            ));
                        } else if se.ttl != me.ttl || se.created != me.created {
                            msgs.push((
                                "entry_deadline",
                                &["C03", "C09", "C19"],
                                format!("{}: index {} has ttl {}ns from {}, expected ttl {}ns from {}", what, k, se.ttl, se.created, me.ttl, me.created),
                            ));
                        }
                    }
                }
            }
            for (k, se) in sm.iter() {
                if !self.m.store.contains_key(k) {
                    msgs.push((
                        "entry_unexpected",
                        &["C02", "C05", "C09", "C11", "C19"],
                        format!("{}: index {} ({}) is resident, the model has nothing there", what, k, se.val),
                    ));
                }
            }
            for (p, props, m) in msgs {
                self.fail(p, props, m);
            }
            self.desync("store differs from model");
            return;
        }
        // policy
        let pm: BTreeMap<u64, i64> = snap.costs.iter().copied().collect();
        if pm != self.m.policy && !self.policy_diverged {
            let mut msgs = Vec::new();
            for (k, c) in self.m.policy.iter() {
                match pm.get(k) {
                    None => msgs.push(("charge_lost", &["C06", "C19"] as &'static [&'static str], format!("{}: key {} is no longer charged (expected {})", what, k, c))),
                    Some(c2) if c2 != c => msgs.push(("charge_value", &["C16", "C19"], format!("{}: key {} is charged {}, expected {}", what, k, c2, c))),
                    _ => {}
                }
            }
            for (k, c) in pm.iter() {
                if !self.m.policy.contains_key(k) {
                    msgs.push(("charge_unexpected", &["C06", "C05", "C11", "C19"], format!("{}: key {} is charged {} but the model has no charge", what, k, c)));
                }
            }
            for (p, props, m) in msgs {
                self.fail(p, props, m);
            }
            // The model keeps its own view of the charges and goes on: what follows from a wrong
            // charge (a newcomer refused although there is room, a victim that frees nothing) is
            // then reported under the properties it concerns. Nothing is reached here on a
            // tree whose charges are right.
            self.policy_diverged = true;
        }
        // queues
        let (pi, _pc, pp) = self.sut.pending();
        if pi != self.m.pending.len() {
            // while the model mirrors the implementation it knows exactly which items the client
            // operations have queued: a missing one will never be applied
            let props: &'static [&'static str] = if pi < self.m.pending.len() {
                match self.m.pending.back() {
                    Some(MItem::Update { .. }) => &["C16", "C19"],
                    Some(MItem::New { .. }) => &["C04", "C10", "C19"],
                    Some(MItem::Delete { .. }) => &["C06", "C02", "C19"],
                    _ => &["C10", "C19"],
                }
            } else {
                &["C19"]
            };
            self.fail("item_not_queued", props, format!("{}: {} items buffered, {} expected (last expected item: {:?})", what, pi, self.m.pending.len(), self.m.pending.back().map(|i| format!("{:?}", i).chars().take(60).collect::<String>())));
            self.desync("insert buffer length differs from model");
            return;
        }
        if pp != self.m.pq.len() {
            self.fail(
                "ring_accounting",
                P_C15,
                format!("{}: {} lookup batches queued, expected {}", what, pp, self.m.pq.len()),
            );
        }
        let (w, _) = self.sut.window();
        if w != self.m.w {
            self.fail(
                "window_counter",
                &["C15", "C13"],
                format!("{}: admission window counter {} expected {}", what, w, self.m.w),
            );
        }
        // metrics
        if let Some(mv) = self.sut.metrics() {
            let mm = &self.m.m;
            let pairs: [(&'static str, u64, u64, &'static [&'static str]); 11] = [
                ("hits", mv.hits, mm.hits, P_C17),
                ("misses", mv.misses, mm.misses, P_C17),
                ("keys_added", mv.keys_added, mm.keys_added, P_C17),
                ("keys_updated", mv.keys_updated, mm.keys_updated, P_C17),
                ("keys_evicted", mv.keys_evicted, mm.keys_evicted, P_C17),
                ("cost_added", mv.cost_added, mm.cost_added, P_C17),
                ("cost_evicted", mv.cost_evicted, mm.cost_evicted, P_C17),
                ("sets_dropped", mv.sets_dropped, mm.sets_dropped, P_C17),
                ("sets_rejected", mv.sets_rejected, mm.sets_rejected, P_C17),
                ("gets_dropped", mv.gets_dropped, mm.gets_dropped, &["C17", "C15"]),
                ("gets_kept", mv.gets_kept, mm.gets_kept, &["C17", "C15"]),
            ];
            for (name, got, want, props) in pairs {
                if got != want {
                    if self.epoch == 0 {
                        self.metrics_bad_before_clear = true;
                    }
                    self.fail("metrics_counter", props, format!("{}: metric {} is {}, expected {}", what, name, got, want));
                    // C11: after clear() the counters restart from zero and the cache behaves like a
                    // fresh one - a counter that was right up to the clear and goes wrong after it
                    if self.epoch > 0 && !self.metrics_bad_before_clear {
                        self.fail("metrics_after_clear", &["C11"], format!("{}: after a clear(), metric {} is {}, a fresh cache would show {} (the counters agreed with the model up to the clear)", what, name, got, want));
                    }
                }
            }
            if mv.hist_count != self.m.m.hist {
                self.fail(
                    "hist_samples",
                    P_C17,
                    format!("{}: life-expectancy histogram count {} expected {}", what, mv.hist_count, self.m.m.hist),
                );
            }
        }
        // C01 bound with slack
        let used = self.m.used();
        if !self.m.policy.is_empty() && used > self.m.max_cost.saturating_add(self.m.slack) {
            self.fail(
                "cost_bound",
                P_C01,
                format!("{}: charged total {} exceeds max_cost {} + slack {}", what, used, self.m.max_cost, self.m.slack),
            );
        }
    }

    // ---------------------------------------------------------------- model transitions

    fn m_policy_remove(&mut self, index: u64) -> Option<i64> {
        let c = self.m.policy.remove(&index);
        if let Some(c) = c {
            if self.cfg.metrics {
                self.m.m.cost_evicted = self.m.m.cost_evicted.wrapping_add(c as u64);
                self.m.m.keys_evicted += 1;
            }
        }
        c
    }

    fn m_policy_update(&mut self, index: u64, cost: i64) -> bool {
        match self.m.policy.get_mut(&index) {
            None => false,
            Some(p) => {
                let prev = *p;
                *p = cost;
                if self.cfg.metrics {
                    self.m.m.keys_updated += 1;
                    self.m.m.cost_added = self.m.m.cost_added.wrapping_add((cost - prev) as u64);
                }
                if cost > prev && self.m.used() > self.m.max_cost {
                    self.m.over_seen = true;
                }
                if cost > prev {
                    self.m.slack += cost - prev;
                    self.feats.cost_raising_updates += 1;
                    self.m.raised_since_admit = true;
                }
                if cost < prev {
                    self.feats.cost_decreasing_updates += 1;
                }
                if cost != prev {
                    self.feats.cost_changing_updates += 1;
                }
                true
            }
        }
    }

    fn m_prepare_evict(&mut self, index: u64) {
        if self.m.tracked.remove(&index) {
            self.m.m.hist += 1;
        }
    }

    /// the processor handles the next buffered item; `log` is what the callbacks saw
    fn model_proc_insert(&mut self, log: Vec<Ev>, costs_after: Vec<(u64, i64)>) {
        if !self.m.synced {
            self.note_events(&log);
            return;
        }
        let item = match self.m.pending.pop_front() {
            Some(i) => i,
            None => {
                self.note_events(&log);
                self.desync("processor took an item the model did not expect");
                return;
            }
        };
        match item {
            MItem::Wait => self.expect_events("Wait item", &log, &[]),
            MItem::Update { index, cost, ext, iip } => {
                let c = self.charge(cost) + ext;
                let was_charged = self.m_policy_update(index, c);
                // C09: insert_if_present on a resident key is an update of value *and* cost
                if iip && was_charged {
                    if let Some((_, got)) = costs_after.iter().find(|(k, _)| *k == index) {
                        if *got != c {
                            self.fail("iip_cost_update", &["C09", "C16"], format!("insert_if_present on resident key {} with charge {}: after its Update item was applied the key is charged {}", index, c, got));
                        }
                    }
                }
                self.expect_events("Update item", &log, &[]);
            }
            MItem::Delete { index, conflict, kills } => {
                self.m_policy_remove(index);
                let mut exp = Vec::new();
                if let Some(e) = self.m.store.get(&index) {
                    if conflict == 0 || conflict == e.conflict {
                        exp.push(Ev::Exit(e.val));
                        self.m.store.remove(&index);
                    }
                }
                for v in kills {
                    if let Some(i) = self.vals.get_mut(&v) {
                        i.dead = true;
                    }
                }
                self.expect_events("Delete item", &log, &exp);
            }
            MItem::New { index, conflict, cost, val, created, ttl } => {
                let c = self.charge(cost);
                let used = self.m.used();
                let max = self.m.max_cost;
                let mut exp = Vec::new();
                let rej = Ev::Reject(val, index, conflict, c, ttl, created);
                if !self.m.policy.contains_key(&index) && used + c > max {
                    self.m.over_seen = true;
                }
                if c > max {
                    self.feats.oversize_rejections += 1;
                    exp.push(rej);
                    self.expect_events("New item (larger than max_cost)", &log, &exp);
                    // must not be resident
                } else if self.m.policy.contains_key(&index) {
                    self.feats.dup_new_rejections += 1;
                    self.m_policy_update(index, c);
                    exp.push(rej);
                    self.expect_events("New item (key already charged)", &log, &exp);
                } else if used + c <= max {
                    self.m_admit(index, conflict, c, val, created, ttl);
                    self.expect_events("New item (room available)", &log, &exp);
                    // C04/C07: with room the newcomer must be admitted and nothing evicted
                    let snap_has = costs_after.iter().any(|(k, _)| *k == index);
                    if !snap_has {
                        let props: &'static [&'static str] = if self.m.over_seen { &["C07"] } else { &["C04", "C07"] };
                        self.fail(
                            "admit_with_room",
                            props,
                            format!("key {} cost {} was not admitted although used {} + cost <= max_cost {}", index, c, used, max),
                        );
                    }
                } else {
                    // no room: the implementation chooses victims / rejection; adopt and validate
                    let newp: BTreeMap<u64, i64> = costs_after.iter().copied().collect();
                    let mut victims: Vec<u64> = Vec::new();
                    for (k, oc) in self.m.policy.clone().iter() {
                        match newp.get(k) {
                            None => victims.push(*k),
                            Some(nc) if nc != oc => {
                                self.fail("charge_value", P_C16, format!("admission of {} changed the charge of {} from {} to {}", index, k, oc, nc));
                            }
                            _ => {}
                        }
                    }
                    let admitted = newp.contains_key(&index);
                    for k in newp.keys() {
                        if *k != index && !self.m.policy.contains_key(k) {
                            self.fail("charge_unexpected", P_C06, format!("admission of {} made key {} charged", index, k));
                        }
                    }
                    if !victims.is_empty() {
                        self.feats.admissions_with_eviction += admitted as u32;
                        if victims.len() > 1 {
                            self.feats.multi_victim += 1;
                        }
                    }
                    if self.m.slack > 0 || used > max {
                        self.feats.over_budget_then_admit += 1;
                    }
                    // C07: every victim leaves the store and is reported to on_evict, whether or
                    // not the newcomer is admitted in the end
                    let resident_now: BTreeSet<u64> = self.sut.snapshot().entries.iter().map(|e| e.index).collect();
                    for v in victims.iter() {
                        if self.m.store.contains_key(v) {
                            if resident_now.contains(v) && self.m.pending.is_empty() {
                                self.fail(
                                    "victim_not_evicted",
                                    &["C07", "C06"],
                                    format!("the policy evicted key {} to make room for key {} (newcomer {}) but the entry is still resident", v, index, if admitted { "admitted" } else { "rejected in a later round" }),
                                );
                            }
                            let val = self.m.store.get(v).map(|e| e.val);
                            if !log.iter().any(|e| matches!(e, Ev::Evict(x, ..) if Some(*x) == val)) {
                                self.fail(
                                    "victim_not_reported",
                                    &["C07", "C08"],
                                    format!("victim {} of the admission decision for key {} was not handed to on_evict", v, index),
                                );
                            }
                        }
                    }
                    if !admitted && !victims.is_empty() {
                        self.feats.evict_then_reject += 1;
                    }
                    for v in victims {
                        let vc = self.m.policy.remove(&v).unwrap();
                        if self.cfg.metrics {
                            self.m.m.cost_evicted = self.m.m.cost_evicted.wrapping_add(vc as u64);
                            self.m.m.keys_evicted += 1;
                        }
                        if let Some(e) = self.m.store.remove(&v) {
                            exp.push(Ev::Evict(e.val, v, e.conflict, vc, e.ttl, e.created));
                            self.m_prepare_evict(v);
                        }
                    }
                    if admitted {
                        self.m_admit(index, conflict, c, val, created, ttl);
                        let u2 = self.m.used();
                        if u2 > self.m.max_cost {
                            // C07: while room is lacking residents are evicted one at a time; an
                            // admission that leaves the total above max_cost stopped too early
                            self.fail(
                                "admission_restores_bound",
                                &["C01", "C07"],
                                format!("after admitting key {} (cost {}) the charged total {} exceeds max_cost {}", index, c, u2, self.m.max_cost),
                            );
                        }
                    } else {
                        self.feats.pop_rejections += 1;
                        if self.cfg.metrics {
                            self.m.m.sets_rejected += 1;
                        }
                        exp.push(rej);
                    }
                    self.expect_events("New item (no room)", &log, &exp);
                }
            }
        }
    }

    fn m_admit(&mut self, index: u64, conflict: u64, c: i64, val: Val, created: i64, ttl: i64) {
        self.feats.admissions += 1;
        if self.m.lowered_since_admit {
            self.feats.max_cost_lowered_then_admit += 1;
        }
        self.m.lowered_since_admit = false;
        self.m.raised_since_admit = false;
        self.m.policy.insert(index, c);
        self.m.slack = 0;
        if self.cfg.metrics {
            self.m.m.cost_added = self.m.m.cost_added.wrapping_add(c as u64);
        }
        // store.try_insert
        let mut stored = true;
        if let Some(e) = self.m.store.get(&index) {
            if conflict != 0 && conflict != e.conflict {
                stored = false;
            } else if !self.cfg.validator.ok(&e.val, &val) {
                stored = false;
            }
        }
        if stored {
            self.m.store.insert(index, MEntry { conflict, val, created, ttl });
        }
        if self.cfg.metrics {
            self.m.m.keys_added += 1;
            self.m.tracked.insert(index);
        }
    }

    /// the cleaner drains the buffer (and, if clear() is synchronous, wipes everything)
    fn model_proc_clear(&mut self, log: Vec<Ev>) {
        if !self.m.synced {
            self.note_events(&log);
            return;
        }
        let mut exp = Vec::new();
        while let Some(it) = self.m.pending.pop_front() {
            if let MItem::New { index, conflict, cost, val, created, ttl } = it {
                exp.push(Ev::Evict(val, index, conflict, cost, ttl, created));
            }
        }
        self.expect_events("clear: buffer drained", &log, &exp);
        // the processor then wipes policy, store and metrics
        self.model_wipe();
    }

    fn model_wipe(&mut self) {
        self.m.store.clear();
        self.m.policy.clear();
        self.m.slack = 0;
        self.m.ideal.clear();
        self.m.w = 0;
        self.m.m = MMetrics::default();
        self.lookups_since_clear = 0;
    }

    fn model_tick(&mut self, log: Vec<Ev>, periodic: bool) {
        self.feats.ticks += 1;
        let now = self.m.now;
        if !self.m.synced {
            self.note_events(&log);
            return;
        }
        // adopt the reclaimed set from the callbacks, validate it
        let mut exp = Vec::new();
        let mut reclaimed: BTreeSet<u64> = BTreeSet::new();
        for e in log.iter() {
            if let Ev::Evict(v, index, ..) = e {
                match self.m.store.get(index) {
                    Some(me) if me.val == *v => {
                        if !me.expired(now) {
                            let msg = format!(
                                "cleanup at {} removed {} (index {}) which {}",
                                now - T0,
                                v,
                                index,
                                if me.ttl == 0 { "has no TTL".to_string() } else { format!("expires only at {}", me.deadline().unwrap() - T0) }
                            );
                            self.fail("tick_only_expired", &["C05", "C04", "C03"], msg);
                        }
                        reclaimed.insert(*index);
                    }
                    _ => {}
                }
            }
        }
        for idx in reclaimed.iter() {
            let me = self.m.store.remove(idx).unwrap();
            let c = self.m_policy_remove(*idx).unwrap_or(-1);
            exp.push(Ev::Evict(me.val, *idx, me.conflict, c, me.ttl, me.created));
            self.m_prepare_evict(*idx);
            self.feats.reclaimed += 1;
            self.lost_once.insert(self.vals.get(&me.val).map(|i| i.key).unwrap_or(0));
        }
        self.expect_events("cleanup tick", &log, &exp);
        if periodic {
            // every entry whose deadline passed at least one bucket width ago must be gone now
            let overdue: Vec<(u64, Val, i64)> = self
                .m
                .store
                .iter()
                .filter_map(|(k, e)| e.deadline().filter(|d| now >= d.saturating_add(NS)).map(|d| (*k, e.val, d)))
                .collect();
            for (k, v, d) in overdue {
                self.fail(
                    "tick_must_reclaim",
                    &["C05"],
                    format!("periodic cleanup at {}: {} (index {}) expired at {} and is still not reclaimed", now - T0, v, k, d - T0),
                );
            }
        }
        let sw: Vec<u64> = self.switched.iter().copied().collect();
        if !sw.is_empty() {
            self.feats.ttl_switch_then_tick += 1;
            self.switched.clear();
        }
    }

    // ---------------------------------------------------------------- ops

    fn ring_push(&mut self, index: u64, hit: bool) {
        self.m.ring.push(index);
        if !hit {
            self.m.ring_miss = true;
        }
        let cap = self.cfg.buffer_items;
        if self.m.ring.len() >= cap {
            let batch = std::mem::take(&mut self.m.ring);
            let n = batch.len() as u64;
            self.feats.batches_flushed += 1;
            if std::mem::take(&mut self.m.ring_miss) {
                self.feats.batches_with_miss += 1;
            }
            let kept = self.cfg.flavour == Flavour::Async || self.m.pq.len() < 3;
            if kept {
                self.m.pq.push_back(batch);
                if self.cfg.metrics {
                    self.m.m.gets_kept += n;
                }
            } else {
                self.feats.batches_dropped += 1;
                if self.cfg.metrics {
                    self.m.m.gets_dropped += n;
                }
            }
        }
    }

    fn model_lookup(&mut self, k: u64) -> Option<MEntry> {
        let (index, conflict) = self.key(k);
        let now = self.m.now;
        let r = self.m.store.get(&index).and_then(|e| {
            if conflict != 0 && conflict != e.conflict {
                None
            } else if e.expired(now) {
                None
            } else {
                Some(e.clone())
            }
        });
        r
    }

    /// checks on any value a lookup returned (no model needed)
    fn check_returned(&mut self, what: &str, k: u64, v: Val) {
        if v.key as u64 != k {
            self.fail(
                "lookup_other_key",
                &["C02", "C18"],
                format!("{}: lookup of key {} returned {} which was written under key {}", what, k, v, v.key),
            );
            return;
        }
        match self.vals.get(&v).cloned() {
            None => self.fail(
                "lookup_unaccepted",
                P_C02,
                format!("{}: lookup of key {} returned {} which no insert accepted", what, k, v),
            ),
            Some(info) => {
                if !info.in_place && info.exits + info.evicts + info.rejects > 0 {
                    self.fail(
                        "lookup_after_callback",
                        &["C08", "C02"],
                        format!("{}: lookup of key {} returned {} which was already handed to a callback", what, k, v),
                    );
                }
                if info.dead {
                    self.fail(
                        "lookup_stale",
                        &["C02", "C11"],
                        format!("{}: lookup of key {} returned {} written before a remove/clear that had taken effect", what, k, v),
                    );
                }
            }
        }
    }

    fn note_collide(&mut self, k: u64) {
        let (index, conflict) = self.key(k);
        if let Some(e) = self.m.store.get(&index) {
            if conflict != 0 && e.conflict != 0 && e.conflict != conflict {
                self.feats.collide_ops_while_partner_resident += 1;
            }
        }
    }

    fn note_lookup_feats(&mut self, k: u64, me: &Option<MEntry>) {
        self.note_collide(k);
        self.feats.lookups += 1;
        if me.is_some() {
            self.feats.hits += 1;
        }
        if self.rewritten_after_loss.contains(&k) {
            self.feats.lookup_after_rewrite += 1;
        }
        let (index, _) = self.key(k);
        if let Some(e) = self.m.store.get(&index) {
            if let Some(d) = e.deadline() {
                let now = self.m.now;
                let near_deadline = (now - d).abs() <= NS;
                let near_second = (now % NS) <= 1 || (NS - now % NS) <= 1;
                if near_deadline || near_second {
                    self.feats.ttl_boundary_lookups += 1;
                }
            }
        }
    }

    fn op_insert(&mut self, k: u64, cost: i64, ttl: i64, tag: u32, only_update: bool) {
        let v = self.new_val(k, tag);
        let (index, conflict) = self.key(k);
        let now = self.m.now;
        self.note_collide(k);
        // what the store physically holds under the index before an insert_if_present
        let pre_iip = if only_update { self.sut.snapshot().entries.into_iter().find(|e| e.index == index).map(|e| (dur_ns(e.ttl), st_ns(e.created_at))) } else { None };
        let r = if only_update {
            self.sut.insert_if_present(k, v, cost)
        } else {
            self.sut.insert(k, v, cost, dur(ttl))
        };
        let log = self.sut.take_log();
        self.tr(|| format!("{}(k{} -> idx {} cf {}, {}, cost {}, ttl {}ns) = {:?}", if only_update { "insert_if_present" } else { "insert" }, k, index, conflict, v, cost, ttl, r));
        let ret = match r {
            Ok(b) => b,
            Err(e) => {
                self.any_err = true;
                self.feats.errs += 1;
                self.note_events(&log);
                self.smap_on = false;
                // nothing in these histories closes the cache: an insert has no reason to fail
                // (the unwrapping variants turn the same failure into a panic in the caller)
                self.fail("insert_returned_err", &["C20"], format!("{} of key {} failed: {}", if only_update { "insert_if_present" } else { "insert" }, k, e));
                self.desync(&format!("insert returned Err({})", e));
                return;
            }
        };
        if ret {
            self.accept_ttl(k, v, false, ttl);
        }
        if self.smap_on && k < WIDE {
            if ret {
                let dl = if ttl == 0 || ttl == HUGE_TTL { 0 } else { now.saturating_add(ttl) };
                self.smap.insert(k, (v, dl));
            } else if !only_update {
                self.smap.remove(&k);
            }
        }
        // C09, model-free: insert_if_present never creates an entry. An expired entry that a sweep
        // has already had to reclaim (deadline + one bucket width before the last tick) is absent:
        // reviving it is creating one
        if only_update && ret && !self.in_interposed_op {
            if let (Some((pttl, pcreated)), Some(tick_at)) = (pre_iip, self.last_tick_at) {
                if self.overdue_survivors.contains(&(index, pcreated)) {
                    let d = pcreated.saturating_add(pttl);
                    self.fail(
                        "iip_on_overdue_entry",
                        &["C09", "C05"],
                        format!("insert_if_present of key {} returned true although the entry under its index expired at {} and the cleanup at {} had to reclaim it", k, d - T0, tick_at - T0),
                    );
                }
            }
        }
        if !self.m.synced {
            self.note_events(&log);
            return;
        }
        // model
        let ext = if cost == 0 && !self.cfg.defaults { tag as i64 } else { 0 };
        if cost == 0 {
            self.feats.coster_writes += 1;
        }
        enum Path {
            Absent,
            Veto,
            Update(Val),
        }
        let path = match self.m.store.get(&index) {
            None => Path::Absent,
            Some(e) => {
                if conflict != 0 && conflict != e.conflict {
                    Path::Absent
                } else if !self.cfg.validator.ok(&e.val, &v) {
                    Path::Veto
                } else {
                    Path::Update(e.val)
                }
            }
        };
        let room = self.m.pending.len() < self.cfg.buffer_size;
        let mut exp = Vec::new();
        let want;
        match path {
            Path::Update(old) => {
                let e = self.m.store.get_mut(&index).unwrap();
                let had_ttl = e.ttl != 0;
                let shared = {
                    let b = e.created.saturating_add(e.ttl) / NS;
                    had_ttl
                        && self
                            .m
                            .store
                            .iter()
                            .filter(|(i, o)| **i != index && o.ttl != 0 && o.created.saturating_add(o.ttl) / NS == b)
                            .count()
                            > 0
                };
                let e = self.m.store.get_mut(&index).unwrap();
                e.val = v;
                e.created = now;
                e.ttl = ttl;
                if had_ttl != (ttl != 0) {
                    self.feats.ttl_switches += 1;
                    self.switched.insert(index);
                }
                if shared {
                    self.feats.shared_bucket_updates += 1;
                }
                exp.push(Ev::Exit(old));
                self.feats.updates += 1;
                if only_update {
                    self.feats.iip_resident += 1;
                }
                if self.m.pending.iter().any(|it| matches!(it, MItem::New{index: i, ..} | MItem::Update{index: i, ..} | MItem::Delete{index: i, ..} if *i == index)) {
                    self.feats.updates_inflight += 1;
                }
                if room {
                    self.m.pending.push_back(MItem::Update { index, cost, ext, iip: only_update });
                }
                want = true;
            }
            Path::Absent | Path::Veto => {
                if matches!(path, Path::Veto) {
                    self.feats.vetoes += 1;
                    self.vetoed_ops.push(self.cur_op);
                    if self.m.store.get(&index).map(|e| e.ttl != 0).unwrap_or(false) || ttl != 0 {
                        self.feats.vetoes_ttl += 1;
                    }
                }
                if only_update {
                    if matches!(path, Path::Absent) {
                        self.feats.iip_absent += 1;
                        let buffered = self.m.pending.iter().any(|it| matches!(it, MItem::New{index: i, ..} if *i == index));
                        if buffered || self.lost_once.contains(&k) {
                            self.feats.iip_absent_interesting += 1;
                        }
                    }
                    want = false;
                } else if room {
                    self.m.pending.push_back(MItem::New { index, conflict, cost: cost + ext, val: v, created: now, ttl });
                    want = true;
                } else {
                    if self.cfg.metrics {
                        self.m.m.sets_dropped += 1;
                    }
                    self.feats.dropped_sets += 1;
                    want = false;
                }
            }
        }
        if ret != want {
            let props: &'static [&'static str] = if only_update { &["C09", "C19"] } else { &["C04", "C09", "C17", "C19"] };
            self.fail("insert_result", props, format!("insert of key {} returned {}, expected {}", k, ret, want));
            self.note_events(&log);
            self.desync("insert result differs from model");
            return;
        }
        if ttl != 0 && ret {
            self.all_deadlines.push(now.saturating_add(ttl));
        }
        if ttl != 0 {
            let d = now.saturating_add(ttl);
            if d % NS <= 1_000_000 || NS - d % NS <= 1_000_000 {
                self.feats.boundary_deadlines += 1;
            }
        }
        if self.epoch > 0 && ret {
            // key re-used after a clear
            if self.ttl_before_clear.remove(&k) {
                self.feats.ttl_key_reused_after_clear += 1;
                self.feats.key_reused_after_clear += 1;
            }
        }
        self.expect_events("insert", &log, &exp);
    }

    fn op_remove(&mut self, k: u64) {
        let (index, conflict) = self.key(k);
        if self.sut.is_async() && self.sut.pending().0 >= self.cfg.buffer_size {
            // an async remove awaits buffer space; let the processor make room first
            self.op_proc_insert();
        }
        self.note_collide(k);
        let r = self.sut.remove(k);
        let log = self.sut.take_log();
        self.tr(|| format!("remove(k{} -> idx {}) = {:?}", k, index, r));
        self.smap.remove(&k);
        if r.is_err() {
            self.smap_on = false;
        }
        let kills: Vec<Val> = self.written.get(&k).cloned().unwrap_or_default();
        if r.is_ok() {
            // the caller was told the remove went through: once the cache is quiescent nothing
            // written under k before this call may be served any more
            self.kills_at_quiescence.extend(kills.iter().copied());
        }
        if !self.m.synced {
            self.note_events(&log);
            if r.is_err() {
                self.any_err = true;
            }
            return;
        }
        let mut exp = Vec::new();
        if let Some(e) = self.m.store.get(&index) {
            if conflict == 0 || conflict == e.conflict {
                exp.push(Ev::Exit(e.val));
                self.m.store.remove(&index);
                self.feats.removes_hit += 1;
                self.lost_once.insert(k);
            }
        }
        if self.m.pending.iter().any(|it| matches!(it, MItem::New{index: i, ..} if *i == index)) {
            self.feats.removes_inflight += 1;
        }
        let room = self.m.pending.len() < self.cfg.buffer_size;
        if room {
            self.m.pending.push_back(MItem::Delete { index, conflict, kills });
        }
        match (&r, room) {
            (Ok(()), true) => {}
            (Err(_), false) => {
                self.any_err = true;
                self.feats.errs += 1;
            }
            (Ok(()), false) => {
                self.note_events(&log);
                self.desync("remove succeeded with a full buffer");
                return;
            }
            (Err(e), true) => {
                self.any_err = true;
                let e = e.clone();
                self.fail("remove_result", &["C19"], format!("remove failed although the buffer had room: {}", e));
            }
        }
        self.expect_events("remove", &log, &exp);
    }

    fn op_get(&mut self, k: u64, mutable: bool, write: Option<u32>) {
        let (index, _) = self.key(k);
        let me = self.model_lookup(k);
        self.note_lookup_feats(k, &me);
        let wv = write.map(|t| self.new_val(k, t));
        let (got, ttl) = if mutable {
            (self.sut.get_mut(k, wv), None)
        } else {
            match self.sut.get(k) {
                Some((v, t)) => (Some(v), Some(t)),
                None => (None, None),
            }
        };
        self.lookups_since_clear += 1;
        self.tr(|| format!("{}(k{} -> idx {}) = {:?} ttl {:?}", if mutable { "get_mut" } else { "get" }, k, index, got, ttl));
        if let Some(v) = got {
            self.check_returned("lookup", k, v);
            if let Some(w) = wv {
                if let Some(e) = self.smap.get_mut(&k) {
                    e.0 = w;
                }
                // in-place write: both values leave the C08 accounting
                self.accept(k, w, true);
                if let Some(i) = self.vals.get_mut(&v) {
                    i.in_place = true;
                }
                self.feats.getmut_writes += 1;
            }
        }
        if !self.m.synced {
            return;
        }
        // model
        let hit = me.is_some();
        if self.cfg.metrics {
            if hit {
                self.m.m.hits += 1;
            } else {
                self.m.m.misses += 1;
            }
        }
        self.ring_push(index, hit);
        let quiescent = self.m.pending.is_empty();
        self.compare_lookup("lookup", k, got, ttl, &me, quiescent);
        if let (Some(_), Some(w)) = (got, wv) {
            if let Some(e) = self.m.store.get_mut(&index) {
                e.val = w;
            }
        }
    }

    /// `quiescent`: exactness is a property-level claim only then
    fn compare_lookup(&mut self, what: &str, k: u64, got: Option<Val>, ttl: Option<Duration>, me: &Option<MEntry>, _quiescent: bool) {
        let (index, _) = self.key(k);
        let now = self.m.now;
        match (got, me) {
            (None, None) => {}
            (Some(v), Some(e)) => {
                if v != e.val {
                    self.fail(
                        "lookup_value",
                        &["C02", "C09", "C18", "C19"],
                        format!("{}: key {} returned {}, the last value written is {}", what, k, v, e.val),
                    );
                    self.desync("lookup value differs");
                    return;
                }
                if let Some(t) = ttl {
                    let want = if e.ttl == 0 { Duration::MAX } else { remaining(e.ttl, e.created, now) };
                    if t != want {
                        self.fail(
                            "ttl_value",
                            &["C03", "C09", "C19"],
                            format!("{}: key {} reports ttl {:?}, expected {:?}", what, k, t, want),
                        );
                    }
                }
            }
            (Some(v), None) => {
                let phys = self.m.store.get(&index).cloned();
                match phys {
                    Some(e) if e.val == v && e.expired(now) => {
                        self.fail(
                            "served_after_ttl",
                            &["C03", "C19"],
                            format!("{}: key {} returned {} although its TTL elapsed at {} (now {})", what, k, v, e.deadline().unwrap() - T0, now - T0),
                        );
                    }
                    _ => {
                        self.fail(
                            "lookup_phantom",
                            &["C02", "C18", "C11", "C19"],
                            format!("{}: key {} returned {} but nothing is visible under that key", what, k, v),
                        );
                        self.desync("lookup returned a value the model does not have");
                    }
                }
            }
            (None, Some(e)) => {
                let props: &'static [&'static str] = if e.ttl != 0 { &["C03", "C04", "C02", "C19"] } else { &["C02", "C03", "C04", "C18", "C19"] };
                self.fail(
                    "lookup_lost",
                    props,
                    format!("{}: key {} returned nothing, expected {} (ttl {}ns written at {})", what, k, e.val, e.ttl, e.created - T0),
                );
                self.desync("lookup lost a value");
            }
        }
    }

    fn op_get_wide(&mut self, n: u16, base: u16) {
        self.tr(|| format!("{} lookups of distinct absent keys (from wide key {})", n, base));
        for i in 0..n as u64 {
            let k = WIDE + base as u64 * 100_000 + i;
            let (index, _) = self.key(k);
            let got = self.sut.get(k);
            self.lookups_since_clear += 1;
            if let Some((v, _)) = got {
                self.fail("lookup_unaccepted", P_C02, format!("lookup of the never-written key {} returned {}", k, v));
            }
            if self.m.synced {
                if self.cfg.metrics {
                    self.m.m.misses += 1;
                }
                self.ring_push(index, false);
            }
            while self.op_policy_step() {}
            if self.halted {
                break;
            }
        }
    }

    fn op_get_hold(&mut self, k: u64, dt: i64) {
        let (index, _) = self.key(k);
        let me = self.model_lookup(k);
        self.note_lookup_feats(k, &me);
        let t0 = self.m.now;
        let t1 = t0 + dt.max(0);
        let got = self.sut.get_hold(k, &|| clock::set_thread(Some(t1)));
        self.lookups_since_clear += 1;
        self.tr(|| format!("get(k{}) held over +{}ns = {:?}", k, dt, got));
        if let Some((v, _, _)) = got {
            self.check_returned("lookup", k, v);
        }
        if !self.m.synced {
            self.m.now = t1;
            clock::set_thread(Some(t1));
            return;
        }
        let hit = me.is_some();
        if self.cfg.metrics {
            if hit {
                self.m.m.hits += 1;
            } else {
                self.m.m.misses += 1;
            }
        }
        self.ring_push(index, hit);
        // the lookup itself happened at t0; the clock moved while the reference was held
        self.compare_lookup("lookup", k, got.map(|g| g.0), got.map(|g| g.1), &me, true);
        self.m.now = t1;
        clock::set_thread(Some(t1));
        if let (Some((_, _, after)), Some(e)) = (got, me.as_ref()) {
            // while the reference is held the remaining time keeps counting down and stops at zero
            let want = if e.ttl == 0 { Duration::MAX } else if e.ttl == HUGE_TTL { remaining(e.ttl, e.created, t1) } else { dur((e.ttl - (t1 - e.created)).max(0)) };
            if after != want {
                self.fail(
                    "ttl_value",
                    &["C03", "C19"],
                    format!("key {}: ValueRef::ttl() {}ns after the lookup reports {:?}, expected {:?}", k, dt, after, want),
                );
            }
        }
    }

    fn op_get_ttl(&mut self, k: u64) {
        self.note_collide(k);
        let me = self.model_lookup(k);
        let got = self.sut.get_ttl(k);
        self.tr(|| format!("get_ttl(k{}) = {:?}", k, got));
        if !self.m.synced {
            return;
        }
        let now = self.m.now;
        let want = me.as_ref().map(|e| if e.ttl == 0 { Duration::MAX } else { remaining(e.ttl, e.created, now) });
        if got != want {
            let props: &'static [&'static str] = &["C03", "C09", "C18", "C19"];
            self.fail("get_ttl_value", props, format!("get_ttl of key {} = {:?}, expected {:?}", k, got, want));
        }
    }

    fn op_update_max_cost(&mut self, m: i64) {
        self.sut.update_max_cost(m);
        if m < 1 << 40 {
            self.smap_on = false;
        }
        self.tr(|| format!("update_max_cost({})", m));
        let got = self.sut.max_cost();
        if got != m {
            self.fail("max_cost_effective", P_C01, format!("max_cost() = {} right after update_max_cost({})", got, m));
        }
        if m < self.m.max_cost {
            self.m.slack += self.m.max_cost - m;
            self.m.lowered_since_admit = true;
        }
        self.m.max_cost = m;
    }

    fn op_clear(&mut self, pre: usize) {
        self.feats.clears += 1;
        self.smap.clear();
        let had_pending = self.m.pending.len();
        if had_pending > 0 {
            self.feats.clears_with_pending += 1;
        }
        for (k, vs) in self.written.iter() {
            if let Some(v) = vs.last() {
                let idx = self.cfg.keys[(*k as usize) % self.cfg.keys.len()].0;
                if let Some(e) = self.m.store.get(&idx) {
                    if e.val == *v && e.ttl != 0 {
                        self.ttl_before_clear.insert(*k);
                    }
                }
            }
        }
        let serial_at_call = self.serial.get();
        // (rarely: the processor is busy elsewhere for a second or so of real time after the clear
        // signal was queued - a clear() that gives up waiting returns before anything was cleared)
        let patient = if self.patience_left > 0 && !self.in_interposed_op && !self.sut.is_async() { self.sut.clear_patient(pre, self.patience_left) } else { None };
        let (r, steps) = match patient {
            Some((r, steps, early)) => {
                self.patience_left = 0;
                self.feats.patient_clears += 1;
                if early {
                    self.fail(
                        "clear_returned_before_processed",
                        &["C11", "C02"],
                        format!("clear() returned {:?} while its signal was still queued and the processor had not touched it ({} ms after the call)", r, self.cfg.patience_ms),
                    );
                }
                (r, steps)
            }
            None => self.sut.clear(pre),
        };
        let log = self.sut.take_log();
        let nsteps = steps.len();
        self.tr(|| format!("clear() = {:?} ({} processor steps while waiting, {} items were buffered)", r, nsteps, had_pending));
        if r.is_err() {
            self.any_err = true;
            self.feats.errs += 1;
        }
        // the steps the processor took while the caller waited
        for s in steps {
            match s.kind {
                StepKind::Insert => self.model_proc_insert(s.log, s.costs),
                StepKind::Clear => self.model_proc_clear(s.log),
            }
        }
        self.note_events(&log);
        // everything written before the call is now "before the latest clear"; what interposed
        // actions wrote during the call is concurrent with it
        self.epoch += 1;
        let epoch = self.epoch;
        for (v, info) in self.vals.iter_mut() {
            if v.serial > serial_at_call {
                info.epoch = epoch;
                info.lenient = true;
            } else {
                info.dead = true;
            }
        }
        let ks: Vec<u64> = self.written.keys().copied().collect();
        for k in ks {
            self.stale_after_clear.insert(k);
        }
        // clear() zeroes the counters (policy admit filter, metrics)
        self.m.m = MMetrics::default();
        self.lookups_since_clear = 0;
        self.metrics_since = self.m.now;
        if !self.in_interposed_op {
            self.lookups_uncertain = false;
        }
        let (pi, _, _) = self.sut.pending();
        if pi == 0 {
            // nothing buffered: if clear() left only its signal queued, the processor consuming
            // it right away is a legitimate schedule and changes nothing
            while self.op_proc_clear() {}
        }
        let (pi, pc, _) = self.sut.pending();
        if pi != 0 || pc != 0 {
            // clear() returned while its signal / older items are still queued: from here only
            // history oracles apply (whether anything stale becomes retrievable is decided at the
            // next quiescent point)
            self.desync("clear() returned with work still queued");
            return;
        }
        if self.m.synced {
            self.m.pending.clear();
            self.model_wipe();
        }
        // C11 / C13: a completed clear() zeroes the admission filter too - a fresh cache estimates
        // zero for every key and its doorkeeper is empty
        if !self.in_interposed_op && r.is_ok() {
            let keys: Vec<u64> = self.cfg.keys.iter().map(|k| k.0).collect();
            for index in keys {
                let est = self.sut.estimate(index);
                let dk = self.sut.doorkeeper_has(index);
                if est != 0 || dk {
                    self.fail(
                        "estimator_not_cleared",
                        &["C11", "C13"],
                        format!("right after clear() returned (nothing buffered), index {} estimates {} (doorkeeper: {}); a fresh cache estimates 0", index, est, dk),
                    );
                    break;
                }
            }
        }
    }

    fn op_wait(&mut self) {
        self.feats.waits += 1;
        if !self.m.pending.is_empty() {
            self.feats.waits_with_pending += 1;
        }
        // "the buffer is full" is the precondition under which wait() may fail: read off the model
        // while it mirrors the implementation, off the real buffer once it does not
        let full = if self.m.synced { self.m.pending.len() >= self.cfg.buffer_size } else { self.sut.pending().0 >= self.sut.buffer_cap() };
        if self.wait_patience_left > 0 && !self.in_interposed_op && !self.sut.is_async() && !full {
            self.sut.set_wait_patience(self.wait_patience_left);
            self.wait_patience_left = 0;
            self.feats.patient_waits += 1;
        }
        let (r, steps) = self.sut.wait();
        let n = steps.len();
        self.tr(|| format!("wait() = {:?} after {} processor steps", r, n));
        // the marker wait() queues (if it queues one) is handled after everything buffered
        // before it; a wait() that returns without queuing anything is fine as long as nothing
        // was pending
        if self.m.synced && !full && r.is_ok() && n > self.m.pending.len() {
            self.m.pending.push_back(MItem::Wait);
        }
        for s in steps {
            match s.kind {
                StepKind::Insert => self.model_proc_insert(s.log, s.costs),
                StepKind::Clear => self.model_proc_clear(s.log),
            }
        }
        match (&r, full) {
            (Ok(()), _) => {
                if self.m.synced && !self.m.pending.is_empty() {
                    self.fail(
                        "wait_barrier",
                        &["C10"],
                        format!("wait() returned Ok with {} earlier items still unapplied", self.m.pending.len()),
                    );
                }
            }
            (Err(_), true) => {
                self.any_err = true;
                self.feats.errs += 1;
            }
            (Err(e), false) => {
                self.any_err = true;
                let e = e.clone();
                self.fail("wait_result", &["C10"], format!("wait() failed although the buffer had room: {}", e));
                self.desync("wait failed");
            }
        }
    }

    fn op_proc_insert(&mut self) -> bool {
        match self.sut.step_insert() {
            None => false,
            Some(r) => {
                let log = self.sut.take_log();
                self.tr(|| format!("processor: insert arm -> {:?} {:?}", r, log));
                if let Err(e) = r {
                    self.fail("processor_error", &["C20"], format!("processor reported {}", e));
                }
                let after = self.sut.snapshot();
                let costs = after.costs;
                self.model_proc_insert(log, costs);
                true
            }
        }
    }

    fn op_proc_clear(&mut self) -> bool {
        match self.sut.step_clear() {
            None => false,
            Some(r) => {
                let log = self.sut.take_log();
                self.tr(|| format!("processor: clear arm -> {:?} {:?}", r, log));
                self.model_proc_clear(log);
                true
            }
        }
    }

    fn op_policy_step(&mut self) -> bool {
        if !self.sut.step_policy() {
            return false;
        }
        self.tr(|| "policy worker: one batch".to_string());
        if self.m.synced {
            if let Some(batch) = self.m.pq.pop_front() {
                let samples = self.cfg.num_counters;
                for k in batch {
                    *self.m.ideal.entry(k).or_insert(0) += 1;
                    self.m.w += 1;
                    if self.m.w >= samples {
                        self.m.w = 0;
                        self.m.ideal.clear();
                        self.feats.window_resets += 1;
                    }
                }
                let ideal: Vec<(u64, u32)> = self.m.ideal.iter().map(|(k, c)| (*k, *c)).collect();
                // C14 at the level of the cache: what was recorded in this window is in the
                // doorkeeper, and - the window never holding more entries than the filter was
                // created for - hashes that were never recorded are (almost) never reported
                for (k, _) in ideal.iter() {
                    if !self.sut.doorkeeper_has(*k) {
                        self.fail("doorkeeper_false_negative", &["C14"], format!("index {} was recorded since the last aging reset but the doorkeeper does not report it", k));
                    }
                }
                let probes = 40u64;
                let present = (0..probes).filter(|i| self.sut.doorkeeper_has(0x5EED_0000_0000_0001u64 ^ i.wrapping_mul(0x9E37_79B9_7F4A_7C15))).count();
                if present >= 10 {
                    self.fail(
                        "doorkeeper_false_positives",
                        &["C14", "C13"],
                        format!("{} of {} never-recorded hashes are reported by the doorkeeper (created for {} entries at 1%; {} recorded in the current window)", present, probes, samples, self.m.w),
                    );
                }
                for (k, c) in ideal {
                    let est = self.sut.estimate(k);
                    if est < (c.min(16)) as i64 {
                        self.fail(
                            "estimate_ge_recorded",
                            &["C15", "C13"],
                            format!("index {} was looked up {} times since the last aging reset (batches kept and processed) but its estimate is {}", k, c, est),
                        );
                    }
                }
            }
        }
        true
    }

    fn op_tick(&mut self, periodic: bool) {
        let pre = self.sut.snapshot().entries;
        let r = self.sut.step_cleanup();
        let log = self.sut.take_log();
        // model-free (C05: "handed to on_evict exactly once", C08): an expired entry that was stored
        // when the sweep began and is gone when it ends has left through a callback of this step -
        // on_evict from the sweep, or the callback of a client action interposed into it (a
        // clear() drops without callback and is excused)
        {
            let now = self.m.now;
            let cleared = self.nested.borrow().iter().any(|o| matches!(o, NObs::Cleared(_)) || matches!(o, NObs::Step(s) if s.contains("clear")));
            if !cleared {
                let post: BTreeSet<Val> = self.sut.snapshot().entries.iter().map(|e| e.value).collect();
                for e in pre.iter() {
                    let (t, c) = (dur_ns(e.ttl), st_ns(e.created_at));
                    let expired = t > 0 && t < HUGE_TTL && c.saturating_add(t) <= now;
                    if expired && !post.contains(&e.value) && !log.iter().any(|ev| ev.val() == Some(e.value)) {
                        self.fail(
                            "swept_without_callback",
                            &["C05", "C08"],
                            format!("cleanup at {}: index {} ({}) expired at {}, was stored when the sweep began and is gone now, but no callback received it (cleanup returned {:?})", now - T0, e.index, e.value, c + t - T0, r),
                        );
                        break;
                    }
                }
            }
        }
        self.tr(|| format!("cleanup tick{} -> {:?} {:?}", if periodic { " (periodic)" } else { "" }, r, log));
        if let Err(e) = r {
            self.fail("processor_error", &["C20"], format!("cleanup reported {}", e));
        }
        self.last_tick_at = Some(self.m.now);
        // model-free: the sweep takes every bucket that has come due, so no entry whose deadline
        // lies a bucket width (1 s) or more in the past is still stored afterwards
        self.overdue_survivors.clear();
        if !self.in_interposed_op {
            let now = self.m.now;
            for e in self.sut.snapshot().entries.iter() {
                let (t, c) = (dur_ns(e.ttl), st_ns(e.created_at));
                if t > 0 && t < HUGE_TTL && c.saturating_add(t).saturating_add(NS) <= now {
                    self.overdue_survivors.insert((e.index, c));
                    self.fail("sweep_left_overdue", &["C05"], format!("cleanup at {}: index {} ({}) expired at {} and is still stored", now - T0, e.index, e.value, c + t - T0));
                }
            }
        }
        // model-free: whatever the cleanup hands to on_evict must have been written with a TTL
        // that has elapsed
        // (not for a tick that client actions were interposed into: a client update racing the
        // sweep is outside the schedule-free quantifiers of C03-C05)
        self.absorb_nested();
        let now = self.m.now;
        // (a client action that lands *before* the sweep looks at a key is different: the sweep
        // then sees the entry as the client left it, and must judge that one)
        let skip = self.in_interposed_op && !self.interposed_before_check;
        for e in log.iter().filter(|_| !skip) {
            if let Ev::Evict(v, index, ..) = e {
                if let Some(i) = self.vals.get(v).cloned() {
                    if !i.in_place && i.ttl >= 0 && (i.ttl == 0 || now - i.written_at < i.ttl) {
                        let why = if i.ttl == 0 { "was written without TTL".to_string() } else { format!("expires only at {}", i.written_at.saturating_add(i.ttl) - T0) };
                        self.fail(
                            "tick_evicts_unexpired",
                            &["C05", "C04", "C03", "C11"],
                            format!("cleanup at {} handed {} (index {}) to on_evict although it {}", now - T0, v, index, why),
                        );
                    }
                }
            }
        }
        self.model_tick(log, periodic);
    }

    fn drain(&mut self, clear_first: bool) {
        let mut guard = 0;
        loop {
            guard += 1;
            if guard > 100_000 {
                panic!("HARNESS drain does not terminate");
            }
            let mut did = false;
            if clear_first {
                did |= self.op_proc_clear();
            }
            while self.op_proc_insert() {
                did = true;
            }
            did |= self.op_proc_clear();
            while self.op_policy_step() {
                did = true;
            }
            if !did {
                break;
            }
        }
    }

    fn set_now(&mut self, t: i64) {
        self.m.now = t;
        clock::set_thread(Some(t));
    }

    fn op_advance(&mut self, a: &Adv) {
        let now = self.m.now;
        let target = match a {
            Adv::Ns(d) => now + (*d).max(0),
            Adv::NextSecond(delta) => {
                let next = (now / NS + 1) * NS + delta;
                if next > now {
                    next
                } else {
                    next + NS
                }
            }
            Adv::Deadline(k, delta) => {
                let (index, _) = self.key(*k);
                match self.m.store.get(&index).and_then(|e| e.deadline()) {
                    // (the deadline of a huge TTL is out of reach)
                    Some(d) if d < i64::MAX / 2 && d + delta > now => d + delta,
                    _ => now + 1,
                }
            }
            Adv::OldDeadline(i, delta) => {
                if self.all_deadlines.is_empty() {
                    now + 1
                } else {
                    let d = self.all_deadlines[(*i as usize) % self.all_deadlines.len()];
                    let due = if d < i64::MAX / 2 { (d / NS + 1) * NS + delta } else { 0 };
                    if due > now {
                        due
                    } else {
                        now + 1
                    }
                }
            }
        };
        // bound the jump so that periodic ticking stays cheap
        let target = match self.cfg.tick {
            Some((i, _)) => target.min(now + 400 * i),
            None => target,
        };
        self.tr(|| format!("advance to +{}ns", target - T0));
        if let Some((interval, _)) = self.cfg.tick {
            while let Some(nt) = self.next_tick {
                if nt > target {
                    break;
                }
                if nt >= self.m.now {
                    self.set_now(nt);
                    self.op_tick(true);
                    self.check_invariants("after periodic tick");
                }
                self.next_tick = Some(nt + interval.max(1));
            }
        }
        self.set_now(target);
    }

    /// E2: execute `then` with a thread-local yield hook that runs `actions` (other roles' atomic
    /// steps) at the nth occurrence of yield point `at`. The model cannot follow an interleaved
    /// execution: from here on only the history/invariant oracles apply.
    fn run_interposed(&mut self, at: &str, nth: usize, actions: &[Op], then: &Op) {
        if matches!(then, Op::Interpose { .. } | Op::Wait | Op::Drain { .. }) {
            return;
        }
        let before_check = at == "cleanup.before_check";
        self.desync("interposition");
        self.feats.interposed += 1;
        self.interposed_serial_base = self.serial.get();
        let key_of = |o: &Op| match o {
            Op::Insert { k, .. } | Op::InsertIfPresent { k, .. } | Op::Remove { k } | Op::Get { k } | Op::GetMut { k, .. } => Some(*k % self.cfg.keys.len() as u64),
            _ => None,
        };
        let outer_key = key_of(then);
        // the processor arms carry the key of the item they are about to handle: approximate by
        // "some action touches a key that has work buffered or is resident"
        if actions.iter().any(|a| key_of(a).is_some() && (outer_key.is_none() || key_of(a) == outer_key)) {
            self.feats.interposed_same_key += 1;
        }
        let sut = self.sut.clone();
        let nested = self.nested.clone();
        let serial = self.serial.clone();
        let actions: Vec<Op> = actions.to_vec();
        let at: String = at.to_string();
        let nkeys = self.cfg.keys.len() as u64;
        let mut seen = 0usize;
        let mut fired = false;
        // a synchronous clear() steps the processor from a first-level hook of its own: yield
        // points reached in there go to the second-level hook
        let level2 = matches!(then, Op::Clear { .. }) && !self.sut.is_async();
        let hook: Box<dyn FnMut(&'static str)> = Box::new(move |id| {
            if fired || id != at {
                return;
            }
            if seen < nth {
                seen += 1;
                return;
            }
            fired = true;
            for a in actions.iter() {
                match a {
                    Op::Insert { k, cost, ttl, tag } => {
                        let k = *k % nkeys;
                        serial.set(serial.get() + 1);
                        let v = Val { key: k as u32, serial: serial.get(), tag: *tag };
                        let r = sut.insert(k, v, *cost, dur(*ttl));
                        nested.borrow_mut().push(NObs::Ins { k, v, ttl: *ttl, r });
                    }
                    Op::InsertIfPresent { k, cost, tag } => {
                        let k = *k % nkeys;
                        serial.set(serial.get() + 1);
                        let v = Val { key: k as u32, serial: serial.get(), tag: *tag };
                        let r = sut.insert_if_present(k, v, *cost);
                        nested.borrow_mut().push(NObs::Ins { k, v, ttl: 0, r });
                    }
                    Op::Remove { k } => {
                        let k = *k % nkeys;
                        if sut.is_async() && sut.pending().0 >= sut.buffer_cap() {
                            continue;
                        }
                        let r = sut.remove(k);
                        nested.borrow_mut().push(NObs::Rem { k, r });
                    }
                    Op::Get { k } => {
                        let k = *k % nkeys;
                        let got = sut.get(k).map(|g| g.0);
                        nested.borrow_mut().push(NObs::Get { k, got });
                    }
                    Op::UpdateMaxCost { m } => sut.update_max_cost(*m),
                    Op::ProcInsert => {
                        if let Some(r) = sut.try_step_insert() {
                            nested.borrow_mut().push(NObs::Step(format!("processor: insert arm -> {:?}", r)));
                        }
                    }
                    Op::Drain { .. } => {
                        for _ in 0..64 {
                            match sut.try_step_insert() {
                                Some(r) => nested.borrow_mut().push(NObs::Step(format!("processor: insert arm -> {:?}", r))),
                                None => break,
                            }
                        }
                    }
                    Op::Tick => {
                        if let Some(r) = sut.try_step_cleanup() {
                            nested.borrow_mut().push(NObs::Step(format!("cleanup tick -> {:?}", r)));
                        }
                    }
                    Op::PolicyStep => {
                        sut.try_step_policy();
                    }
                    Op::Clear { pre } => {
                        // only a client role may be interposed with a clear(): inside a processor
                        // step the processor could never acknowledge it
                        if sut.processor_free() && sut.is_async() {
                            let (r, _steps) = sut.clear_nested(*pre);
                            nested.borrow_mut().push(NObs::Cleared(r));
                        }
                    }
                    _ => {}
                }
            }
        });
        if level2 {
            stretto::verif::set_thread_yield_hook2(Some(hook));
        } else {
            stretto::verif::set_thread_yield_hook(Some(hook));
        }
        // run the outer op through the ordinary path (desynced: history oracles only)
        let then = then.clone();
        self.in_interposed_op = true;
        self.smap_on = false;
        self.interposed_then_clear = matches!(then, Op::Clear { .. });
        self.interposed_before_check = before_check;
        self.interposed_then_lookup = matches!(then, Op::Get { .. } | Op::GetMut { .. } | Op::GetHold { .. } | Op::GetTtl { .. });
        self.exec_inner(&then);
        self.in_interposed_op = false;
        stretto::verif::set_thread_yield_hook(None);
        stretto::verif::set_thread_yield_hook2(None);
        self.absorb_nested();
        self.interposed_then_clear = false;
        self.interposed_then_lookup = false;
        self.interposed_before_check = false;
        let log = self.sut.take_log();
        self.note_events(&log);
        self.check_invariants("after interposed step");
    }

    pub fn exec(&mut self, op: &Op) {
        self.exec_inner(op);
    }

    fn exec_inner(&mut self, op: &Op) {
        if self.halted {
            return;
        }
        self.step += 1;
        self.feats.steps += 1;
        self.repl_check = !self.in_interposed_op && matches!(op, Op::Insert { .. } | Op::InsertIfPresent { .. } | Op::ProcInsert | Op::Remove { .. } | Op::Get { .. } | Op::GetTtl { .. } | Op::Tick | Op::PolicyStep);
        let quiesce = self.cfg.mode == Mode::Quiescent;
        match op {
            Op::Insert { k, cost, ttl, tag } => self.op_insert(*k % self.nkeys(), *cost, *ttl, *tag, false),
            Op::InsertIfPresent { k, cost, tag } => self.op_insert(*k % self.nkeys(), *cost, 0, *tag, true),
            Op::Remove { k } => self.op_remove(*k % self.nkeys()),
            Op::Get { k } => self.op_get(*k % self.nkeys(), false, None),
            Op::GetMut { k, write } => self.op_get(*k % self.nkeys(), true, *write),
            // (keys outside the table need the table key builder)
            Op::GetWide { .. } | Op::BulkWide { .. } if self.cfg.defaults => {}
            Op::GetWide { n, base } => self.op_get_wide(*n, *base),
            Op::BulkWide { n, ttl } => {
                for i in 0..*n as u64 {
                    self.op_insert(WIDE + 7_000_000 + i, 1, *ttl, 1, false);
                    if i % 32 == 31 {
                        self.drain(false);
                    }
                    if self.halted {
                        break;
                    }
                }
            }
            Op::Bulk { n } => {
                let nk = self.nkeys();
                for i in 0..*n as u64 {
                    self.op_insert(i % nk, 1, 0, 0, false);
                }
            }
            Op::GetTtl { k } => self.op_get_ttl(*k % self.nkeys()),
            Op::GetHold { k, dt } => self.op_get_hold(*k % self.nkeys(), *dt),
            Op::UpdateMaxCost { m } => self.op_update_max_cost(*m),
            Op::Clear { pre } => self.op_clear(*pre),
            Op::Wait => self.op_wait(),
            Op::Advance(a) => self.op_advance(a),
            Op::ProcInsert => {
                if !quiesce {
                    self.op_proc_insert();
                }
            }
            Op::ProcClear => {
                if !quiesce {
                    self.op_proc_clear();
                }
            }
            Op::Tick => {
                if self.cfg.tick.is_none() {
                    self.op_tick(false)
                }
            }
            Op::PolicyStep => {
                self.op_policy_step();
            }
            Op::Drain { clear_first } => self.drain(*clear_first),
            Op::Interpose { at, nth, actions, then } => {
                self.run_interposed(at, *nth, actions, then);
                return;
            }
        }
        let is_client = matches!(
            op,
            Op::Insert { .. } | Op::Bulk { .. } | Op::InsertIfPresent { .. } | Op::Remove { .. } | Op::Get { .. } | Op::GetWide { .. } | Op::BulkWide { .. } | Op::GetHold { .. } | Op::GetMut { .. } | Op::UpdateMaxCost { .. } | Op::Clear { .. }
        );
        if quiesce && is_client {
            self.drain(false);
        }
        self.check_invariants("after step");
    }

    /// the closing sequence of every case: quiesce and look at everything once more
    pub fn finish(&mut self, clear_first: bool) {
        self.step += 1;
        self.drain(clear_first);
        self.check_invariants("at the end (quiescent)");
        // final sweep: every key
        for k in 0..self.nkeys() {
            let me = self.model_lookup(k);
            let got = self.sut.get(k);
            self.lookups_since_clear += 1;
            if let Some((v, _)) = got {
                self.check_returned("final sweep", k, v);
            }
            if self.m.synced {
                let (index, _) = self.key(k);
                if self.cfg.metrics {
                    if me.is_some() {
                        self.m.m.hits += 1;
                    } else {
                        self.m.m.misses += 1;
                    }
                }
                self.ring_push(index, me.is_some());
                self.compare_lookup("final sweep", k, got.map(|g| g.0), got.map(|g| g.1), &me, true);
            }
            if self.cfg.mode == Mode::Quiescent {
                while self.op_policy_step() {}
            }
        }
        self.drain(false);
        self.check_invariants("after the final sweep");
    }

    pub fn into_report(self) -> Report {
        clock::set_thread(None);
        Report {
            failures: self.failures,
            feats: self.feats,
            trace: self.trace,
            vetoed_ops: self.vetoed_ops,
        }
    }
}

fn ev_cost(e: &Ev) -> Option<i64> {
    match e {
        Ev::Evict(_, _, _, c, ..) | Ev::Reject(_, _, _, c, ..) => Some(*c),
        _ => None,
    }
}

pub fn run_case(case: &Case, want_trace: bool) -> Result<Report, String> {
    let mut it = Interp::new(&case.cfg, want_trace)?;
    let mut last_clear_first = false;
    for (i, op) in case.ops.iter().enumerate() {
        if let Op::Drain { clear_first } = op {
            last_clear_first = *clear_first;
        }
        it.cur_op = i;
        it.exec(op);
    }
    it.finish(last_clear_first);
    Ok(it.into_report())
}
