//! proptest strategies for lock-step cases, parameterised by a profile.
use crate::common::*;
use crate::lockstep::*;
use proptest::prelude::*;
use std::sync::OnceLock;

pub fn item_size() -> i64 {
    static S: OnceLock<i64> = OnceLock::new();
    *S.get_or_init(|| {
        let b = crate::sut::BuildCfg {
            num_counters: 16,
            max_cost: 10,
            buffer_size: 4,
            buffer_items: 4,
            ignore_internal_cost: false,
            metrics: false,
            validator: Validator::Always,
            keys: vec![(1, 0)],
            order: 0,
        };
        use crate::sut::Sut;
        crate::sut::SyncSut::build(&b).unwrap().item_size() as i64
    })
}

#[derive(Clone, Copy, Debug, PartialEq, Eq)]
pub enum Cap {
    Ample,
    Tight,
    Mixed,
}

#[derive(Clone, Copy, Debug, PartialEq, Eq)]
pub enum Layout {
    /// index k+1, conflict 0 (what TransparentKeyBuilder does)
    Plain,
    /// any of: plain, same shard, huge indices, non-zero conflicts
    Varied,
    /// pairs of keys share an index and differ in a non-zero conflict
    Collide,
}

#[derive(Clone, Debug)]
pub struct Weights {
    pub insert: u32,
    pub iip: u32,
    pub remove: u32,
    pub get: u32,
    pub getmut: u32,
    pub getttl: u32,
    pub gethold: u32,
    pub getwide: u32,
    pub bulkwide: u32,
    pub umc: u32,
    pub clear: u32,
    pub wait: u32,
    pub adv: u32,
    pub proc_insert: u32,
    pub proc_clear: u32,
    pub tick: u32,
    pub policy: u32,
    pub drain: u32,
}

impl Default for Weights {
    fn default() -> Self {
        Weights {
            insert: 30,
            iip: 4,
            remove: 8,
            get: 14,
            getmut: 3,
            getttl: 3,
            gethold: 1,
            getwide: 0,
            bulkwide: 0,
            umc: 2,
            clear: 2,
            wait: 2,
            adv: 10,
            proc_insert: 14,
            proc_clear: 2,
            tick: 6,
            policy: 3,
            drain: 3,
        }
    }
}

#[derive(Clone, Debug)]
pub struct Profile {
    pub name: &'static str,
    pub keys: (usize, usize),
    pub layout: Layout,
    pub cap: Cap,
    pub ttl_pct: u32,
    pub modes: Vec<Mode>,
    pub async_pct: u32,
    pub w: Weights,
    pub len: (usize, usize),
    pub validators: Vec<Validator>,
    pub periodic: bool,
    /// share of cases (percent) with a periodic cleanup even if `periodic` is false
    pub periodic_pct: u32,
    pub metrics: Option<bool>,
    pub buffer_sizes: Vec<usize>,
    pub buffer_items: Vec<usize>,
    pub ignore_internal: Option<bool>,
    pub num_counters: Vec<usize>,
    pub getmut_write: bool,
    pub negative_max: bool,
    /// a share of explicit costs below zero (accepted by the API; only the Coster rule of C16 looks at them)
    pub negative_costs: bool,
    /// share of cases (percent) built with the builder's own key builder, coster and validator
    pub defaults_pct: u32,
    /// cases per 10 000 in which the first clear() / wait() finds the processor busy elsewhere for
    /// 1.25 s of real time (sync flavour)
    pub patience_per_10k: u32,
    pub big_advances: bool,
    /// weight of E2 interposition ops (schedule mode only)
    pub interpose: u32,
    /// restrict interposition to the clear() sites
    pub interpose_clear_only: bool,
}

impl Default for Profile {
    fn default() -> Self {
        Profile {
            name: "default",
            keys: (2, 8),
            layout: Layout::Varied,
            cap: Cap::Mixed,
            ttl_pct: 35,
            modes: vec![Mode::Quiescent, Mode::Schedule],
            async_pct: 25,
            w: Weights::default(),
            len: (5, 60),
            validators: vec![Validator::Always],
            periodic: false,
            periodic_pct: 0,
            metrics: None,
            buffer_sizes: vec![1, 2, 3, 5, 8, 64],
            buffer_items: vec![0, 1, 2, 3, 5, 64],
            ignore_internal: None,
            num_counters: vec![2, 3, 8, 16, 33, 64],
            getmut_write: false,
            negative_max: false,
            negative_costs: false,
            defaults_pct: 12,
            patience_per_10k: 0,
            big_advances: true,
            interpose: 0,
            interpose_clear_only: false,
        }
    }
}

fn pick<T: Clone + std::fmt::Debug + 'static>(v: &[T]) -> BoxedStrategy<T> {
    proptest::sample::select(v.to_vec()).boxed()
}

fn layout_keys(layout: Layout, n: usize) -> BoxedStrategy<Vec<(u64, u64)>> {
    match layout {
        Layout::Plain => Just((0..n as u64).map(|k| (k + 1, 0)).collect()).boxed(),
        Layout::Collide => (0u8..3)
            .prop_map(move |variant| {
                (0..n as u64)
                    .map(|k| {
                        let a = k / 2;
                        let index = match variant {
                            0 => a + 1,
                            1 => (a + 1) * 256,
                            _ => 0xdead_beef_0000_0000u64 + a * 7919,
                        };
                        (index, k + 1)
                    })
                    .collect()
            })
            .boxed(),
        Layout::Varied => (0u8..5)
            .prop_map(move |variant| {
                (0..n as u64)
                    .map(|k| match variant {
                        0 => (k + 1, 0),
                        1 => ((k + 1) * 256, 0),
                        2 => (k.wrapping_mul(0x9E37_79B9_7F4A_7C15) | 1, 0),
                        3 => (k + 1, k * 7 + 3),
                        _ => (u64::MAX - k, k * 13 + 1),
                    })
                    .collect()
            })
            .boxed(),
    }
}

pub fn config_strategy(p: &Profile) -> BoxedStrategy<Config> {
    let p = p.clone();
    let isz = item_size();
    let nk = p.keys.0..=p.keys.1;
    (
        nk,
        any::<u32>(),
        pick(&p.modes),
        0u32..100,
        pick(&p.buffer_sizes),
        pick(&p.buffer_items),
        pick(&p.validators),
        pick(&p.num_counters),
        any::<bool>(),
        any::<bool>(),
    )
        .prop_flat_map(move |(n, r, mode, fl, bs, bi, val, nc, ign, met)| {
            let ignore_internal = p.ignore_internal.unwrap_or(ign);
            let metrics = p.metrics.unwrap_or(met);
            let internal = if ignore_internal { 0 } else { isz };
            let cap = match p.cap {
                Cap::Mixed => {
                    if r % 3 == 0 {
                        Cap::Ample
                    } else {
                        Cap::Tight
                    }
                }
                c => c,
            };
            let max_cost: BoxedStrategy<i64> = match cap {
                Cap::Ample => Just(1i64 << 40).boxed(),
                _ => {
                    let mut opts: Vec<BoxedStrategy<i64>> = Vec::new();
                    if internal > 0 {
                        opts.push((1i64..=5, 0i64..=internal).prop_map(move |(m, e)| m * internal + e).boxed());
                        opts.push((1i64..=4).prop_map(move |m| m * (internal + 3)).boxed());
                    } else {
                        opts.push((1i64..=60).boxed());
                        opts.push((1i64..=8).boxed());
                    }
                    if p.negative_max {
                        opts.push(prop_oneof![Just(-1i64), Just(-100i64)].boxed());
                    }
                    proptest::strategy::Union::new(opts).boxed()
                }
            };
            let flavour = if fl < p.async_pct { Flavour::Async } else { Flavour::Sync };
            let tick: BoxedStrategy<Option<(i64, i64)>> = if p.periodic || (r / 7) % 100 < p.periodic_pct {
                (
                    proptest::sample::select(vec![100_000_000i64, 250_000_000, 500_000_000, NS, 1_500_000_000, 2 * NS, 3 * NS]),
                    0i64..3 * NS,
                )
                    .prop_map(|(i, ph)| Some((i, ph % i)))
                    .boxed()
            } else {
                Just(None).boxed()
            };
            let start = prop_oneof![Just(0i64), Just(1i64), Just(NS - 1), Just(500_000_000i64), 0i64..NS];
            let defaults = p.layout != Layout::Collide && (r / 31) % 100 < p.defaults_pct;
            let patience = p.patience_per_10k;
            (layout_keys(p.layout, n), max_cost, tick, start).prop_map(move |(keys, max_cost, tick, start_ns)| {
                let (keys, val) = if defaults {
                    use stretto::KeyBuilder;
                    let kb = stretto::DefaultKeyBuilder::<u64>::default();
                    ((0..n as u64).map(|k| kb.build_key(&k)).collect(), Validator::Always)
                } else {
                    (keys, val)
                };
                Config {
                    flavour,
                    mode,
                    max_cost,
                    num_counters: nc,
                    buffer_size: bs,
                    buffer_items: bi,
                    ignore_internal_cost: ignore_internal,
                    metrics,
                    validator: val,
                    keys,
                    start_ns,
                    tick,
                    order: ((r / 1013) % 10) as u8,
                    defaults,
                    patience_ms: if flavour == Flavour::Sync && (r / 17) % 10_000 < patience { 1250 } else { 0 },
                }
            })
        })
        .boxed()
}

fn ttl_strategy(ttl_pct: u32) -> BoxedStrategy<i64> {
    if ttl_pct == 0 {
        return Just(0i64).boxed();
    }
    let some = prop_oneof![
        2 => Just(1i64),
        4 => 1_000_000i64..999_000_000,
        2 => Just(NS - 1),
        3 => Just(NS),
        2 => Just(NS + 1),
        3 => Just(1_500_000_000i64),
        4 => (2i64..=5).prop_map(|s| s * NS),
        1 => (0i64..NS).prop_map(|x| 2 * NS + x),
        1 => Just(59_999_000_000i64),
        1 => Just(3600 * NS),
        1 => Just(HUGE_TTL),
    ];
    prop_oneof![
        (100 - ttl_pct.min(100)) => Just(0i64),
        ttl_pct => some,
    ]
    .boxed()
}

fn cost_strategy(max_cost: i64, internal: i64) -> BoxedStrategy<i64> {
    let room = (max_cost - internal).max(1);
    if max_cost > (1 << 30) {
        return prop_oneof![3 => Just(0i64), 5 => 1i64..=10, 1 => Just(1000i64)].boxed();
    }
    prop_oneof![
        3 => Just(0i64),
        6 => 1i64..=5,
        2 => (1i64..=3).prop_map(move |d| (room / (d + 1)).max(1)),
        2 => Just(room.max(1)),
        1 => Just((room - 1).max(1)),
        2 => Just(room + 1),
        1 => Just(room + internal + 5),
    ]
    .boxed()
}

fn tag_strategy(max_cost: i64, internal: i64) -> BoxedStrategy<u32> {
    let room = (max_cost - internal).clamp(1, 1 << 20) as u32;
    prop_oneof![
        8 => 0u32..=9,
        // tag 0 with cost 0 is a Coster value of zero: an entry whose whole charge is zero when the
        // internal overhead is ignored
        2 => Just(0u32),
        1 => Just(room),
        1 => Just(room + 1),
    ]
    .boxed()
}

fn adv_strategy(nkeys: u64, big: bool) -> BoxedStrategy<Adv> {
    let bigs: Vec<i64> = if big { vec![5 * NS, 61 * NS, 3600 * NS] } else { vec![2 * NS + 1, 3 * NS] };
    prop_oneof![
        4 => proptest::sample::select(vec![1i64, 1_000_000, 10_000_000, 100_000_000, 500_000_000, NS - 1, NS, 1_500_000_000, 2 * NS]).prop_map(Adv::Ns),
        1 => (0i64..3 * NS).prop_map(Adv::Ns),
        2 => proptest::sample::select(bigs).prop_map(Adv::Ns),
        4 => proptest::sample::select(vec![-1i64, 0, 1]).prop_map(Adv::NextSecond),
        5 => (0..nkeys, proptest::sample::select(vec![-1i64, 0, 1, NS - 1, NS, NS + 1])).prop_map(|(k, d)| Adv::Deadline(k, d)),
        3 => (any::<u8>(), proptest::sample::select(vec![-1i64, 0, 1, 500_000_000, NS - 1])).prop_map(|(i, d)| Adv::OldDeadline(i, d)),
    ]
    .boxed()
}

pub fn op_strategy(p: &Profile, cfg: &Config) -> BoxedStrategy<Op> {
    let nk = cfg.keys.len() as u64;
    let internal = if cfg.ignore_internal_cost { 0 } else { item_size() };
    let w = &p.w;
    let cost = cost_strategy(cfg.max_cost, internal);
    let cost = if p.negative_costs { prop_oneof![9 => cost, 1 => -3i64..=-1].boxed() } else { cost };
    let tag = tag_strategy(cfg.max_cost, internal);
    let ttl = ttl_strategy(p.ttl_pct);
    let umc_vals: BoxedStrategy<i64> = if cfg.max_cost > (1 << 30) {
        Just(cfg.max_cost).boxed()
    } else {
        let m = cfg.max_cost;
        prop_oneof![
            Just(m),
            Just((m / 2).max(1)),
            Just(m * 2),
            Just((m - internal).max(1)),
            Just(m + internal),
            Just(1i64),
        ]
        .boxed()
    };
    let schedule = cfg.mode == Mode::Schedule;
    let getmut_write = p.getmut_write;
    let mut arms: Vec<(u32, BoxedStrategy<Op>)> = vec![
        (w.insert, (0..nk, cost.clone(), ttl, tag.clone()).prop_map(|(k, cost, ttl, tag)| Op::Insert { k, cost, ttl, tag }).boxed()),
        (w.iip, (0..nk, cost, tag.clone()).prop_map(|(k, cost, tag)| Op::InsertIfPresent { k, cost, tag }).boxed()),
        (w.remove, (0..nk).prop_map(|k| Op::Remove { k }).boxed()),
        (w.get, (0..nk).prop_map(|k| Op::Get { k }).boxed()),
        (
            w.getmut,
            if getmut_write {
                (0..nk, proptest::option::weighted(0.5, tag)).prop_map(|(k, write)| Op::GetMut { k, write }).boxed()
            } else {
                (0..nk).prop_map(|k| Op::GetMut { k, write: None }).boxed()
            },
        ),
        (w.getttl, (0..nk).prop_map(|k| Op::GetTtl { k }).boxed()),
        (
            w.gethold,
            (0..nk, proptest::sample::select(vec![0i64, 1, 1_000_000, 500_000_000, NS - 1, NS, NS + 1, 2 * NS, 10 * NS])).prop_map(|(k, dt)| Op::GetHold { k, dt }).boxed(),
        ),
        (w.getwide, (proptest::sample::select(vec![8u16, 40, 150, 600]), 0u16..4).prop_map(|(n, base)| Op::GetWide { n, base }).boxed()),
        // (hundreds of entries falling due together only make sense where they are all admitted)
        (
            if cfg.max_cost > (1 << 30) { w.bulkwide } else { 0 },
            (proptest::sample::select(vec![40u16, 270, 300]), proptest::sample::select(vec![1_000_000i64, 500_000_000, NS, 2 * NS])).prop_map(|(n, ttl)| Op::BulkWide { n, ttl }).boxed(),
        ),
        (w.umc, umc_vals.prop_map(|m| Op::UpdateMaxCost { m }).boxed()),
        (w.clear, (0usize..4).prop_map(|pre| Op::Clear { pre }).boxed()),
        (w.wait, Just(Op::Wait).boxed()),
        (w.adv, adv_strategy(nk, p.big_advances).prop_map(Op::Advance).boxed()),
        (w.policy, Just(Op::PolicyStep).boxed()),
    ];
    if cfg.tick.is_none() {
        arms.push((w.tick, Just(Op::Tick).boxed()));
    }
    if schedule {
        arms.push((w.proc_insert, Just(Op::ProcInsert).boxed()));
        arms.push((w.proc_clear, Just(Op::ProcClear).boxed()));
        arms.push((w.drain, any::<bool>().prop_map(|clear_first| Op::Drain { clear_first }).boxed()));
    }
    if schedule && p.interpose > 0 {
        let nested = prop_oneof![
            4 => (0..nk, cost_strategy(cfg.max_cost, internal), ttl_strategy(p.ttl_pct), tag_strategy(cfg.max_cost, internal)).prop_map(|(k, cost, ttl, tag)| Op::Insert { k, cost, ttl, tag }),
            3 => (0..nk).prop_map(|k| Op::Remove { k }),
            2 => (0..nk).prop_map(|k| Op::Get { k }),
            1 => (0..nk, cost_strategy(cfg.max_cost, internal), tag_strategy(cfg.max_cost, internal)).prop_map(|(k, cost, tag)| Op::InsertIfPresent { k, cost, tag }),
            2 => Just(Op::ProcInsert),
            1 => Just(Op::Drain { clear_first: false }),
            1 => Just(Op::Tick),
            1 => (0usize..3).prop_map(|pre| Op::Clear { pre }),
        ];
        let actions = proptest::collection::vec(nested, 1..=3);
        let other_w = if p.interpose_clear_only { 0u32 } else { 1 };
        let _ = other_w;
        let site = if p.interpose_clear_only {
            (proptest::sample::select(vec!["clear.after_signal", "proc.clear.after_drain", "proc.clear.after_policy_clear", "proc.clear.after_store_clear", "em.clear.before", "em.clear.after"]), (0usize..3).prop_map(|pre| Op::Clear { pre })).boxed()
        } else {
            prop_oneof![
            6 => (proptest::sample::select(vec!["proc.new.after_policy_add", "proc.new.after_store_insert", "proc.new.victim", "proc.update", "proc.delete.after_policy_remove"]), Just(Op::ProcInsert)),
            3 => (proptest::sample::select(vec!["remove.after_store_remove", "remove.before_store_remove"]), (0..nk).prop_map(|k| Op::Remove { k })),
            3 => (proptest::sample::select(vec!["insert.after_store_update", "insert.before_store_update"]), (0..nk, cost_strategy(cfg.max_cost, internal), ttl_strategy(p.ttl_pct), tag_strategy(cfg.max_cost, internal)).prop_map(|(k, cost, ttl, tag)| Op::Insert { k, cost, ttl, tag })),
            3 => (proptest::sample::select(vec!["cleanup.before_check", "cleanup.after_check", "cleanup.after_policy_remove"]), Just(Op::Tick)),
            // the entry of the store's mutators, whoever calls them (client, processor, sweep)
            4 => (
                proptest::sample::select(vec!["store.insert.enter", "store.update.enter", "store.remove.enter"]),
                prop_oneof![
                    3 => Just(Op::ProcInsert),
                    1 => Just(Op::Tick),
                    2 => (0..nk).prop_map(|k| Op::Remove { k }),
                    2 => (0..nk, cost_strategy(cfg.max_cost, internal), ttl_strategy(p.ttl_pct), tag_strategy(cfg.max_cost, internal)).prop_map(|(k, cost, ttl, tag)| Op::Insert { k, cost, ttl, tag }),
                ]
            ),
            2 => (proptest::sample::select(vec!["clear.after_signal", "proc.clear.after_drain", "proc.clear.after_policy_clear", "proc.clear.after_store_clear", "em.clear.before", "em.clear.after"]), (0usize..3).prop_map(|pre| Op::Clear { pre })),
        ].boxed()
        };
        arms.push((
            p.interpose,
            (site, 0usize..2, actions, any::<u8>())
                .prop_map(|((at, then), nth, mut actions, same)| {
                    // half of the keyed actions aim at the key of the interrupted operation
                    let outer = match &then {
                        Op::Insert { k, .. } | Op::Remove { k } => Some(*k),
                        _ => None,
                    };
                    if let Some(ok) = outer {
                        for (i, a) in actions.iter_mut().enumerate() {
                            if same & (1 << i) != 0 {
                                match a {
                                    Op::Insert { k, .. } | Op::InsertIfPresent { k, .. } | Op::Remove { k } | Op::Get { k } => *k = ok,
                                    _ => {}
                                }
                            }
                        }
                    }
                    Op::Interpose { at: at.to_string(), nth, actions, then: Box::new(then) }
                })
                .boxed(),
        ));
    }
    let arms: Vec<(u32, BoxedStrategy<Op>)> = arms.into_iter().filter(|(w, _)| *w > 0).collect();
    proptest::strategy::Union::new_weighted(arms).boxed()
}

pub fn case_strategy(p: &Profile) -> BoxedStrategy<Case> {
    let p2 = p.clone();
    config_strategy(p)
        .prop_flat_map(move |cfg| {
            let ops = proptest::collection::vec(op_strategy(&p2, &cfg), p2.len.0..=p2.len.1);
            (Just(cfg), ops).prop_map(|(cfg, ops)| Case { cfg, ops })
        })
        .boxed()
}

/// Template cases for "clear() racing a client operation on a TTL key, then the key is re-used":
/// random prefix; a TTL key made resident; clear() with a client action interposed at one of the
/// yield points inside it; the key re-used with another TTL or none; time advanced over the old
/// deadline; a cleanup tick; random suffix.
pub fn clear_reuse_scenario(p: &Profile) -> BoxedStrategy<Case> {
    let mut p2 = p.clone();
    p2.modes = vec![Mode::Schedule];
    let p3 = p2.clone();
    config_strategy(&p2)
        .prop_flat_map(move |cfg| {
            let nk = cfg.keys.len() as u64;
            let ops = op_strategy(&p3, &cfg);
            let site = proptest::sample::select(vec!["clear.after_signal", "proc.clear.after_drain", "proc.clear.after_policy_clear", "proc.clear.after_store_clear", "em.clear.before", "em.clear.after"]);
            let ttl_some = proptest::sample::select(vec![1_000_000i64, 500_000_000, NS - 1, NS, 1_500_000_000, 2 * NS, 5 * NS]);
            let ttl_any = prop_oneof![Just(0i64), proptest::sample::select(vec![1_000_000i64, NS, 3 * NS])];
            (
                Just(cfg),
                proptest::collection::vec(ops.clone(), 0..10),
                0..nk,
                ttl_some.clone(),
                site,
                prop_oneof![
                    3 => ttl_some.prop_map(|t| (0u8, t)),
                    1 => Just((0u8, 0i64)),
                    1 => Just((1u8, 0i64)),
                ],
                ttl_any,
                proptest::sample::select(vec![NS, 2 * NS, 3 * NS, 6 * NS]),
                proptest::collection::vec(ops, 0..8),
                0usize..2,
            )
                .prop_map(move |(cfg, prefix, k, ttl1, site, (akind, attl), ttl2, adv, suffix, pre)| {
                    let mut v = prefix;
                    v.push(Op::Insert { k, cost: 1, ttl: ttl1, tag: 1 });
                    v.push(Op::Drain { clear_first: false });
                    let action = if akind == 0 { Op::Insert { k, cost: 1, ttl: attl, tag: 2 } } else { Op::Remove { k } };
                    v.push(Op::Interpose { at: site.to_string(), nth: 0, actions: vec![action], then: Box::new(Op::Clear { pre }) });
                    v.push(Op::Drain { clear_first: false });
                    v.push(Op::Insert { k, cost: 1, ttl: ttl2, tag: 3 });
                    v.push(Op::Drain { clear_first: false });
                    v.push(Op::Advance(Adv::Ns(adv)));
                    v.push(Op::Tick);
                    v.push(Op::Get { k });
                    v.extend(suffix);
                    Case { cfg, ops: v }
                })
        })
        .boxed()
}

/// Template cases around the default insert-buffer size (32 * 1024): a buffer larger than the
/// default, more than 32 Ki items buffered, then clear(): nothing buffered before the clear may
/// be applied after it.
pub fn big_buffer_clear_scenario(p: &Profile) -> BoxedStrategy<Case> {
    let mut p2 = p.clone();
    p2.modes = vec![Mode::Schedule];
    p2.periodic = false;
    p2.periodic_pct = 0;
    (config_strategy(&p2), proptest::sample::select(vec![32_769usize, 40_000, 65_536]), proptest::sample::select(vec![32_768u32, 32_769, 33_000, 40_000]), 0usize..3, 0u64..8)
        .prop_map(|(mut cfg, bs, n, pre, k)| {
            cfg.buffer_size = bs;
            cfg.flavour = if k % 3 == 0 { Flavour::Async } else { Flavour::Sync };
            let ops = vec![Op::Bulk { n }, Op::Clear { pre }, Op::Drain { clear_first: false }, Op::Get { k }, Op::Get { k: k + 1 }];
            Case { cfg, ops }
        })
        .boxed()
}

/// Template cases for "a client operation lands inside a cleanup sweep": random prefix; two to four
/// TTL keys whose deadlines share a second are made resident; time moves past their bucket; the
/// cleanup tick runs with client actions (remove / lookup / re-insert of one of those keys, or a
/// processor step) interposed at one of the yield points inside the per-key loop of the sweep; all
/// keys are looked up; random suffix.
pub fn sweep_race_scenario(p: &Profile) -> BoxedStrategy<Case> {
    let mut p2 = p.clone();
    p2.modes = vec![Mode::Schedule];
    p2.periodic = false;
    p2.periodic_pct = 0;
    let p3 = p2.clone();
    config_strategy(&p2)
        .prop_flat_map(move |cfg| {
            let nk = cfg.keys.len() as u64;
            let ops = op_strategy(&p3, &cfg);
            let ttl = proptest::sample::select(vec![1_000_000i64, 500_000_000, NS - 1, NS, 1_500_000_000, 2 * NS]);
            let site = proptest::sample::select(vec!["cleanup.before_check", "cleanup.before_check", "cleanup.after_check", "cleanup.after_policy_remove"]);
            let ttl_any = prop_oneof![Just(0i64), proptest::sample::select(vec![1_000_000i64, NS, 3 * NS])];
            let action = prop_oneof![
                4 => (0..nk).prop_map(|k| Op::Remove { k }),
                2 => (0..nk).prop_map(|k| Op::Get { k }),
                2 => (0..nk, ttl_any, 2u32..9).prop_map(|(k, ttl, tag)| Op::Insert { k, cost: 1, ttl, tag }),
                1 => Just(Op::ProcInsert),
            ];
            (
                Just(cfg),
                proptest::collection::vec(ops.clone(), 0..8),
                2u64..=nk.min(4).max(2),
                ttl,
                site,
                0usize..4,
                proptest::collection::vec(action, 1..=2),
                proptest::sample::select(vec![NS, NS + 1, 2 * NS, 3 * NS]),
                proptest::collection::vec(ops, 0..8),
                proptest::bool::weighted(0.3),
            )
                .prop_map(move |(cfg, prefix, m, ttl, site, nth, actions, extra, suffix, bulk)| {
                    let m = m.min(cfg.keys.len() as u64);
                    let mut v = prefix;
                    // a sweep over hundreds of due keys (same expiry second as the table keys)
                    if bulk && cfg.max_cost > 1 << 30 && !cfg.defaults {
                        v.push(Op::BulkWide { n: 270, ttl });
                    }
                    for k in 0..m {
                        v.push(Op::Insert { k, cost: 1, ttl, tag: 1 });
                    }
                    v.push(Op::Drain { clear_first: false });
                    v.push(Op::Advance(Adv::Ns(ttl + extra)));
                    v.push(Op::Interpose { at: site.to_string(), nth, actions, then: Box::new(Op::Tick) });
                    v.push(Op::Drain { clear_first: false });
                    for k in 0..m {
                        v.push(Op::Get { k });
                    }
                    v.extend(suffix);
                    Case { cfg, ops: v }
                })
        })
        .boxed()
}

/// Cases over key tables in which pairs of keys share an index hash (distinct conflict hashes),
/// under vetoing validators: the store's second line of defence - the validator is asked again when
/// the processor stores an admitted item over a resident entry - is only reachable there.
pub fn collide_veto_scenario(p: &Profile) -> BoxedStrategy<Case> {
    let mut p2 = p.clone();
    p2.layout = Layout::Collide;
    p2.keys = (2, 6);
    p2.validators = vec![Validator::Never, Validator::TagGe, Validator::TagEven, Validator::TagDiffers];
    p2.w.remove = 16;
    case_strategy(&p2)
}
