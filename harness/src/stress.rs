//! E3: generated multi-thread scripts against caches with real background workers.
//!
//! Cases run inside worker processes (`sv worker`): a stuck case cannot wedge a check and leaked
//! blocked threads do not pollute the next case. A hang is reported only on state evidence
//! (which call is blocked, worker counters, process CPU time flat), never on a timeout alone.
use crate::clock;
use crate::common::*;
use parking_lot::Mutex;
use proptest::prelude::*;
use serde::{Deserialize, Serialize};
use std::collections::{BTreeMap, BTreeSet, HashMap, HashSet};
use std::sync::atomic::{AtomicBool, AtomicU32, AtomicU64, AtomicUsize, Ordering};
use std::sync::{Arc, Barrier, OnceLock};
use std::time::{Duration, Instant};
use stretto::{AsyncCache, AsyncCacheBuilder, Cache, CacheBuilder, TransparentKeyBuilder};

// ------------------------------------------------------------------------------------------
// cases
// ------------------------------------------------------------------------------------------

#[derive(Clone, Copy, Debug, PartialEq, Eq, Serialize, Deserialize, Hash)]
pub enum Exec {
    Sync,
    TokioMt,
    TokioCt,
    AsyncStd,
    ThreadPerTask,
}

impl Exec {
    pub fn is_async(&self) -> bool {
        !matches!(self, Exec::Sync)
    }
}

#[derive(Clone, Copy, Debug, PartialEq, Eq, Serialize, Deserialize, Hash)]
pub enum Kind {
    /// C10: batches on owned keys followed by wait(); optional concurrent clear()
    Barrier,
    /// C10: wait() racing clear()/close()/full buffers: every call returns
    WaitRace,
    /// C12: close semantics, worker termination
    Close,
    /// C20: builder parameters + workload
    Config,
    /// C01 C02 C06 C08 C17: history invariants, inline and at quiescence
    Invariants,
    /// C05 (C19): the real cleanup ticker reclaims expired entries while traffic continues
    Reclaim,
    /// C09 (C02): concurrent writers of one key under a monotone validator (new.tag >= prev.tag)
    Validated,
    /// C15 (C17, C19): lookup batching and accounting under concurrent readers and a live worker
    Lookups,
}

#[derive(Clone, Debug, PartialEq, Eq, Serialize, Deserialize, Hash)]
pub struct SCfg {
    pub num_counters: usize,
    pub max_cost: i64,
    pub buffer_size: usize,
    pub buffer_items: usize,
    pub metrics: bool,
    pub ignore_internal_cost: bool,
    pub cleanup_ms: u64,
    #[serde(default = "always")]
    pub validator: Validator,
    /// build through `Cache::builder(num_counters, max_cost)` and leave key builder, hasher,
    /// buffer sizes and cleanup interval at the library defaults
    #[serde(default)]
    pub defaults: bool,
    /// pairs of keys (2i, 2i+1) share an index hash (distinct conflict hashes), and the store's
    /// hasher perturbs the schedule whenever a key is hashed (also inside the shard locks)
    #[serde(default)]
    pub collide: bool,
}

fn always() -> Validator {
    Validator::Always
}

#[derive(Clone, Debug, PartialEq, Eq, Serialize, Deserialize, Hash)]
pub enum SOp {
    Insert { k: u32, cost: i64, ttl_ms: u32 },
    Iip { k: u32, cost: i64 },
    Remove { k: u32 },
    Get { k: u32 },
    GetMut { k: u32 },
    /// look up, keep the reference while the global virtual clock advances by ms, read its ttl
    GetHold { k: u32, ms: u32 },
    /// look up (get or get_mut) and keep the guard alive for `us` microseconds of real time
    GetLinger { k: u32, us: u16, mutable: bool },
    Wait,
    Clear,
    Close,
    UpdateMax { m: i64 },
    Spin(u16),
    /// advance the process-wide virtual clock (ms)
    Advance(u32),
    Len,
    DropHandle,
    /// get_ttl of a key (not a metered lookup)
    GetTtl { k: u32 },
}

#[derive(Clone, Debug, PartialEq, Eq, Serialize, Deserialize, Hash)]
pub struct StressCase {
    pub kind: Kind,
    pub exec: Exec,
    pub cfg: SCfg,
    pub threads: Vec<Vec<SOp>>,
    pub perturb: u64,
    /// Close kind: drop every handle instead of closing
    pub drop_only: bool,
}

#[derive(Clone, Debug, Default, Serialize, Deserialize)]
pub struct SResult {
    pub status: String, // ok | violation | hang | panic | harness
    pub props: Vec<String>,
    pub pred: String,
    pub msg: String,
    pub classes: Vec<String>,
    pub nontrivial: bool,
    pub history: Vec<String>,
}

impl SResult {
    fn ok() -> Self {
        SResult { status: "ok".into(), ..Default::default() }
    }
    fn violation(props: &[&str], pred: &str, msg: String) -> Self {
        SResult {
            status: "violation".into(),
            props: props.iter().map(|s| s.to_string()).collect(),
            pred: pred.into(),
            msg,
            ..Default::default()
        }
    }
}

// ------------------------------------------------------------------------------------------
// API over sync and async caches with real workers
// ------------------------------------------------------------------------------------------

type K = u64;
type RSync = Cache<K, Val, TransparentKeyBuilder<K>, TagCoster, Validator, RecTs, DetS>;
type RAsync = AsyncCache<K, Val, TransparentKeyBuilder<K>, TagCoster, Validator, RecTs, DetS>;

/// recording callback with a logical timestamp per event
#[derive(Clone, Default)]
pub struct RecTs {
    pub log: Arc<Mutex<Vec<(u64, Ev)>>>,
    pub clock: Arc<AtomicU64>,
}

impl RecTs {
    fn push(&self, e: Ev) {
        let mut g = self.log.lock();
        let t = self.clock.fetch_add(1, Ordering::SeqCst);
        g.push((t, e));
    }
}

impl stretto::CacheCallback for RecTs {
    type Value = Val;
    fn on_exit(&self, val: Option<Val>) {
        self.push(match val {
            Some(v) => Ev::Exit(v),
            None => Ev::Empty("exit"),
        });
    }
    fn on_evict(&self, item: stretto::Item<Val>) {
        slow_callback();
        let (ttl, created) = time_parts(&item);
        self.push(match item.val {
            Some(v) => Ev::Evict(v, item.index, item.conflict, item.cost, ttl, created),
            None => Ev::Empty("evict"),
        });
    }
    fn on_reject(&self, item: stretto::Item<Val>) {
        slow_callback();
        let (ttl, created) = time_parts(&item);
        self.push(match item.val {
            Some(v) => Ev::Reject(v, item.index, item.conflict, item.cost, ttl, created),
            None => Ev::Empty("reject"),
        });
    }
}

pub trait Api: Send + Sync {
    fn insert(&self, k: K, v: Val, cost: i64, ttl: Duration) -> Result<bool, String>;
    fn iip(&self, k: K, v: Val, cost: i64) -> Result<bool, String>;
    fn remove(&self, k: K) -> Result<(), String>;
    /// the panicking wrappers `remove` / `insert`: Err(panic message) if they panic
    fn wrappers(&self, k: K, v: Val) -> Result<bool, String>;
    fn get(&self, k: K) -> Option<Val>;
    fn get_mut(&self, k: K) -> Option<Val>;
    fn get_hold(&self, k: K, ms: u32) -> Option<(Val, Duration, Duration)>;
    fn get_ttl(&self, k: K) -> Option<Duration>;
    fn get_linger(&self, k: K, us: u16, mutable: bool) -> Option<Val>;
    fn wait(&self) -> Result<(), String>;
    fn clear(&self) -> Result<(), String>;
    fn close(&self) -> Result<(), String>;
    fn update_max_cost(&self, m: i64);
    fn max_cost(&self) -> i64;
    fn len(&self) -> usize;
    fn snapshot(&self) -> stretto::verif::Snapshot<Val>;
    fn metrics(&self) -> Option<crate::sut::MetricsView>;
    fn estimate(&self, index: u64) -> i64;
    fn dup(&self) -> Box<dyn Api>;
}

/// ttl_ms == u32::MAX stands for the largest TTL whose deadline still fits the expiry index's
/// arithmetic on the unchanged tree: i64::MAX seconds
fn ttl_of(ttl_ms: u32) -> Duration {
    if ttl_ms == u32::MAX {
        Duration::from_secs(i64::MAX as u64)
    } else {
        Duration::from_millis(ttl_ms as u64)
    }
}

/// pairs of keys share an index hash
#[derive(Clone, Default)]
pub struct PairKB;
impl stretto::KeyBuilder for PairKB {
    type Key = K;
    fn hash_index<Q>(&self, key: &Q) -> u64
    where
        K: core::borrow::Borrow<Q>,
        Q: std::hash::Hash + Eq + ?Sized,
    {
        let mut h = Capture::default();
        key.hash(&mut h);
        std::hash::Hasher::finish(&h) / 2 + 1
    }
    fn hash_conflict<Q>(&self, key: &Q) -> u64
    where
        K: core::borrow::Borrow<Q>,
        Q: std::hash::Hash + Eq + ?Sized,
    {
        let mut h = Capture::default();
        key.hash(&mut h);
        std::hash::Hasher::finish(&h) + 1
    }
}

static PERTURB_CTR: AtomicU64 = AtomicU64::new(0);

/// the seeded perturbation of the yield hook, callable from anywhere
fn perturb_now() {
    let seed = PERTURB_CTR.fetch_add(0x9E37_79B9_7F4A_7C15, Ordering::Relaxed);
    if seed == 0 {
        return;
    }
    let mut x = seed;
    x ^= x >> 29;
    x = x.wrapping_mul(0xBF58_476D_1CE4_E5B9);
    x ^= x >> 32;
    match x % 16 {
        0 | 1 => std::thread::yield_now(),
        2 => std::thread::sleep(Duration::from_micros((x >> 8) % 150)),
        // rarely a long stall: a thread preempted for milliseconds in the middle of an operation
        3 if (x >> 4) % 24 == 0 => std::thread::sleep(Duration::from_micros(500 + (x >> 16) % 2500)),
        _ => {}
    }
}

/// a hasher whose construction is a yield point: every lookup in the store's and the policy's maps
/// (also those made while a shard lock is held) may be delayed
#[derive(Clone, Default)]
pub struct PerturbS;
impl std::hash::BuildHasher for PerturbS {
    type Hasher = std::collections::hash_map::DefaultHasher;
    fn build_hasher(&self) -> Self::Hasher {
        perturb_now();
        std::collections::hash_map::DefaultHasher::new()
    }
}

/// user callbacks take time: now and then the processor is held up inside on_evict / on_reject
/// (seeded like the other perturbations; nothing happens while the seed is 0)
fn slow_callback() {
    let seed = PERTURB_CTR.fetch_add(0x9E37_79B9_7F4A_7C15, Ordering::Relaxed);
    if seed == 0 {
        return;
    }
    let mut x = seed;
    x ^= x >> 31;
    x = x.wrapping_mul(0x94D0_49BB_1331_11EB);
    x ^= x >> 29;
    match x % 64 {
        0..=7 => std::thread::sleep(Duration::from_micros(50 + (x >> 8) % 350)),
        8 => std::thread::sleep(Duration::from_millis(5 + (x >> 8) % 15)),
        _ => {}
    }
}

/// u64::MAX stands for "never": the largest interval the type can express
fn cleanup_of(ms: u64) -> Duration {
    if ms == u64::MAX {
        Duration::MAX
    } else {
        Duration::from_millis(ms.max(1))
    }
}

fn wrapper_guard<T>(f: impl FnOnce() -> T) -> Result<T, String> {
    std::panic::catch_unwind(std::panic::AssertUnwindSafe(f)).map_err(|p| {
        let _ = panics_take();
        p.downcast_ref::<String>().cloned().or_else(|| p.downcast_ref::<&str>().map(|s| s.to_string())).unwrap_or_default()
    })
}

fn linger(us: u16) {
    // (the largest value stands for a guard kept for 150 ms)
    let us = if us == u16::MAX { 150_000 } else { us as u64 };
    let t0 = std::time::Instant::now();
    if us > 5_000 {
        std::thread::sleep(Duration::from_micros(us));
        return;
    }
    while t0.elapsed() < Duration::from_micros(us) {
        std::hint::spin_loop();
    }
}

fn es<T>(r: Result<T, stretto::CacheError>) -> Result<T, String> {
    r.map_err(|e| e.to_string())
}

struct SyncApi<KH, S>(Cache<K, Val, KH, TagCoster, Validator, RecTs, S>);

impl<KH, S> Api for SyncApi<KH, S>
where
    KH: stretto::KeyBuilder<Key = K> + Send + Sync + 'static,
    S: std::hash::BuildHasher + Clone + Send + Sync + 'static,
{
    fn insert(&self, k: K, v: Val, cost: i64, ttl: Duration) -> Result<bool, String> {
        es(self.0.try_insert_with_ttl(k, v, cost, ttl))
    }
    fn iip(&self, k: K, v: Val, cost: i64) -> Result<bool, String> {
        es(self.0.try_insert_if_present(k, v, cost))
    }
    fn remove(&self, k: K) -> Result<(), String> {
        es(self.0.try_remove(&k))
    }
    fn wrappers(&self, k: K, v: Val) -> Result<bool, String> {
        wrapper_guard(|| {
            self.0.remove(&k);
            self.0.insert(k, v, 1)
        })
    }
    fn get(&self, k: K) -> Option<Val> {
        self.0.get(&k).map(|r| *r.value())
    }
    fn get_mut(&self, k: K) -> Option<Val> {
        self.0.get_mut(&k).map(|r| *r.value())
    }
    fn get_ttl(&self, k: K) -> Option<Duration> {
        self.0.get_ttl(&k)
    }
    fn get_hold(&self, k: K, ms: u32) -> Option<(Val, Duration, Duration)> {
        self.0.get(&k).map(|r| {
            let t1 = r.ttl();
            clock::advance_global(ms as i64 * 1_000_000);
            (*r.value(), t1, r.ttl())
        })
    }
    fn get_linger(&self, k: K, us: u16, mutable: bool) -> Option<Val> {
        if mutable {
            self.0.get_mut(&k).map(|r| {
                linger(us);
                *r.value()
            })
        } else {
            self.0.get(&k).map(|r| {
                linger(us);
                *r.value()
            })
        }
    }
    fn wait(&self) -> Result<(), String> {
        es(self.0.wait())
    }
    fn clear(&self) -> Result<(), String> {
        es(self.0.clear())
    }
    fn close(&self) -> Result<(), String> {
        es(self.0.close())
    }
    fn update_max_cost(&self, m: i64) {
        self.0.update_max_cost(m)
    }
    fn max_cost(&self) -> i64 {
        self.0.max_cost()
    }
    fn len(&self) -> usize {
        self.0.len()
    }
    fn snapshot(&self) -> stretto::verif::Snapshot<Val> {
        self.0.verif_snapshot()
    }
    fn metrics(&self) -> Option<crate::sut::MetricsView> {
        crate::sut::metrics_view_pub(&self.0.metrics)
    }
    fn estimate(&self, index: u64) -> i64 {
        self.0.verif_estimate(index)
    }
    fn dup(&self) -> Box<dyn Api> {
        Box::new(SyncApi(self.0.clone()))
    }
}

struct AsyncApi<KH: stretto::KeyBuilder<Key = K>, S>(AsyncCache<K, Val, KH, TagCoster, Validator, RecTs, S>);

fn bo<F: std::future::Future>(f: F) -> F::Output {
    futures::executor::block_on(f)
}

impl<KH, S> Api for AsyncApi<KH, S>
where
    KH: stretto::KeyBuilder<Key = K> + Send + Sync + 'static,
    S: std::hash::BuildHasher + Clone + Send + Sync + 'static,
{
    fn insert(&self, k: K, v: Val, cost: i64, ttl: Duration) -> Result<bool, String> {
        es(bo(self.0.try_insert_with_ttl(k, v, cost, ttl)))
    }
    fn iip(&self, k: K, v: Val, cost: i64) -> Result<bool, String> {
        es(bo(self.0.try_insert_if_present(k, v, cost)))
    }
    fn remove(&self, k: K) -> Result<(), String> {
        es(bo(self.0.try_remove(&k)))
    }
    fn wrappers(&self, k: K, v: Val) -> Result<bool, String> {
        wrapper_guard(|| {
            bo(self.0.remove(&k));
            bo(self.0.insert(k, v, 1))
        })
    }
    fn get(&self, k: K) -> Option<Val> {
        bo(self.0.get(&k)).map(|r| *r.value())
    }
    fn get_mut(&self, k: K) -> Option<Val> {
        bo(self.0.get_mut(&k)).map(|r| *r.value())
    }
    fn get_ttl(&self, k: K) -> Option<Duration> {
        self.0.get_ttl(&k)
    }
    fn get_hold(&self, k: K, ms: u32) -> Option<(Val, Duration, Duration)> {
        bo(self.0.get(&k)).map(|r| {
            let t1 = r.ttl();
            clock::advance_global(ms as i64 * 1_000_000);
            (*r.value(), t1, r.ttl())
        })
    }
    fn get_linger(&self, k: K, us: u16, mutable: bool) -> Option<Val> {
        if mutable {
            bo(self.0.get_mut(&k)).map(|r| {
                linger(us);
                *r.value()
            })
        } else {
            bo(self.0.get(&k)).map(|r| {
                linger(us);
                *r.value()
            })
        }
    }
    fn wait(&self) -> Result<(), String> {
        es(bo(self.0.wait()))
    }
    fn clear(&self) -> Result<(), String> {
        es(bo(self.0.clear()))
    }
    fn close(&self) -> Result<(), String> {
        es(bo(self.0.close()))
    }
    fn update_max_cost(&self, m: i64) {
        self.0.update_max_cost(m)
    }
    fn max_cost(&self) -> i64 {
        self.0.max_cost()
    }
    fn len(&self) -> usize {
        self.0.len()
    }
    fn snapshot(&self) -> stretto::verif::Snapshot<Val> {
        self.0.verif_snapshot()
    }
    fn metrics(&self) -> Option<crate::sut::MetricsView> {
        crate::sut::metrics_view_pub(&self.0.metrics)
    }
    fn estimate(&self, index: u64) -> i64 {
        self.0.verif_estimate(index)
    }
    fn dup(&self) -> Box<dyn Api> {
        Box::new(AsyncApi(self.0.clone()))
    }
}

// ---- spawners (must be Copy: plain fn items over process-wide executors)

pub static TASKS_STARTED: AtomicUsize = AtomicUsize::new(0);
pub static TASKS_FINISHED: AtomicUsize = AtomicUsize::new(0);
pub static TASKS_PANICKED: AtomicUsize = AtomicUsize::new(0);

fn wrap(fut: futures::future::BoxFuture<'static, ()>) -> impl std::future::Future<Output = ()> + Send + 'static {
    use futures::FutureExt;
    TASKS_STARTED.fetch_add(1, Ordering::SeqCst);
    async move {
        if std::panic::AssertUnwindSafe(fut).catch_unwind().await.is_err() {
            TASKS_PANICKED.fetch_add(1, Ordering::SeqCst);
        }
        TASKS_FINISHED.fetch_add(1, Ordering::SeqCst);
    }
}

fn rt_mt() -> &'static tokio::runtime::Runtime {
    static RT: OnceLock<tokio::runtime::Runtime> = OnceLock::new();
    RT.get_or_init(|| tokio::runtime::Builder::new_multi_thread().worker_threads(3).enable_all().build().unwrap())
}

fn rt_ct() -> &'static tokio::runtime::Handle {
    static H: OnceLock<tokio::runtime::Handle> = OnceLock::new();
    H.get_or_init(|| {
        let (tx, rx) = std::sync::mpsc::channel();
        std::thread::Builder::new()
            .name("tokio-ct-driver".into())
            .spawn(move || {
                let rt = tokio::runtime::Builder::new_current_thread().enable_all().build().unwrap();
                tx.send(rt.handle().clone()).unwrap();
                rt.block_on(std::future::pending::<()>());
            })
            .unwrap();
        rx.recv().unwrap()
    })
}

fn spawn_tokio_mt(fut: futures::future::BoxFuture<'static, ()>) {
    rt_mt().spawn(wrap(fut));
}
fn spawn_tokio_ct(fut: futures::future::BoxFuture<'static, ()>) {
    rt_ct().spawn(wrap(fut));
}
fn spawn_async_std(fut: futures::future::BoxFuture<'static, ()>) {
    async_std::task::spawn(wrap(fut));
}
fn spawn_thread(fut: futures::future::BoxFuture<'static, ()>) {
    let w = wrap(fut);
    std::thread::spawn(move || futures::executor::block_on(w));
}

pub fn build_api(exec: Exec, cfg: &SCfg, cb: RecTs) -> Result<Box<dyn Api>, stretto::CacheError> {
    if cfg.defaults {
        // the documented entry points with everything else left at its default
        return match exec {
            Exec::Sync => {
                let c = Cache::<K, Val>::builder(cfg.num_counters, cfg.max_cost)
                    .set_metrics(cfg.metrics)
                    .set_ignore_internal_cost(cfg.ignore_internal_cost)
                    .set_coster(TagCoster)
                    .set_update_validator(cfg.validator)
                    .set_callback(cb)
                    .finalize()?;
                Ok(Box::new(SyncApi(c)))
            }
            _ => {
                let b = AsyncCache::<K, Val>::builder(cfg.num_counters, cfg.max_cost)
                    .set_metrics(cfg.metrics)
                    .set_ignore_internal_cost(cfg.ignore_internal_cost)
                    .set_coster(TagCoster)
                    .set_update_validator(cfg.validator)
                    .set_callback(cb);
                let c = match exec {
                    Exec::TokioMt => b.finalize(spawn_tokio_mt)?,
                    Exec::TokioCt => b.finalize(spawn_tokio_ct)?,
                    Exec::AsyncStd => b.finalize(spawn_async_std)?,
                    _ => b.finalize(spawn_thread)?,
                };
                Ok(Box::new(AsyncApi(c)))
            }
        };
    }
    // the hasher perturbs the schedule in every colliding case and in a third of the others
    if cfg.collide && std::env::var("VERIF_TRACK_ALL").is_err() {
        build_with(exec, cfg, cb, PairKB, PerturbS)
    } else if (cfg.num_counters + cfg.buffer_size + cfg.max_cost.unsigned_abs() as usize) % 3 == 0 {
        build_with(exec, cfg, cb, TransparentKeyBuilder::<K>::default(), PerturbS)
    } else {
        build_with(exec, cfg, cb, TransparentKeyBuilder::<K>::default(), DetS::default())
    }
}

fn build_with<KH, S>(exec: Exec, cfg: &SCfg, cb: RecTs, kh: KH, hasher: S) -> Result<Box<dyn Api>, stretto::CacheError>
where
    KH: stretto::KeyBuilder<Key = K> + Send + Sync + 'static,
    S: std::hash::BuildHasher + Clone + Send + Sync + 'static,
{
    match exec {
        Exec::Sync => {
            let c = CacheBuilder::new_with_key_builder(cfg.num_counters, cfg.max_cost, kh)
                .set_buffer_size(cfg.buffer_size)
                .set_buffer_items(cfg.buffer_items)
                .set_ignore_internal_cost(cfg.ignore_internal_cost)
                .set_metrics(cfg.metrics)
                .set_cleanup_duration(cleanup_of(cfg.cleanup_ms))
                .set_coster(TagCoster)
                .set_update_validator(cfg.validator)
                .set_callback(cb)
                .set_hasher(hasher)
                .finalize()?;
            Ok(Box::new(SyncApi(c)))
        }
        _ => {
            let b = AsyncCacheBuilder::new_with_key_builder(cfg.num_counters, cfg.max_cost, kh)
                .set_buffer_size(cfg.buffer_size)
                .set_buffer_items(cfg.buffer_items)
                .set_ignore_internal_cost(cfg.ignore_internal_cost)
                .set_metrics(cfg.metrics)
                .set_cleanup_duration(cleanup_of(cfg.cleanup_ms))
                .set_coster(TagCoster)
                .set_update_validator(cfg.validator)
                .set_callback(cb)
                .set_hasher(hasher);
            let c = match exec {
                Exec::TokioMt => b.finalize(spawn_tokio_mt)?,
                Exec::TokioCt => b.finalize(spawn_tokio_ct)?,
                Exec::AsyncStd => b.finalize(spawn_async_std)?,
                _ => b.finalize(spawn_thread)?,
            };
            Ok(Box::new(AsyncApi(c)))
        }
    }
}

// ------------------------------------------------------------------------------------------
// progress / hang evidence
// ------------------------------------------------------------------------------------------

const OPN: [&str; 12] = ["idle", "insert", "iip", "remove", "get", "get_mut", "wait", "clear", "close", "done", "snapshot", "other"];

pub struct Progress {
    /// per thread: (op code << 48) | ops completed
    pub slots: Vec<AtomicU64>,
    pub since: Vec<Mutex<Instant>>,
    /// worker counters (constructed, dropped) when the case began
    pub workers_base: (usize, usize),
    /// kernel thread ids of the client threads (0 = not started)
    pub tids: Vec<AtomicU64>,
}

impl Progress {
    fn new(n: usize) -> Arc<Self> {
        Arc::new(Progress {
            slots: (0..n).map(|_| AtomicU64::new(0)).collect(),
            since: (0..n).map(|_| Mutex::new(Instant::now())).collect(),
            workers_base: stretto::verif::workers(),
            tids: (0..n).map(|_| AtomicU64::new(0)).collect(),
        })
    }
    fn register(&self, t: usize) {
        let tid = unsafe { libc::syscall(libc::SYS_gettid) } as u64;
        self.tids[t].store(tid, Ordering::SeqCst);
    }
    /// true if every client that is inside a call is asleep in the kernel (state S or D): a thread
    /// that is merely starved of CPU shows R and must not be mistaken for a blocked one
    fn blocked_clients_asleep(&self) -> bool {
        for (t, s) in self.slots.iter().enumerate() {
            let op = (s.load(Ordering::SeqCst) >> 48) as usize;
            if op == 0 || op == 9 {
                continue;
            }
            let tid = self.tids[t].load(Ordering::SeqCst);
            if tid == 0 {
                return false;
            }
            let st = std::fs::read_to_string(format!("/proc/self/task/{}/stat", tid)).unwrap_or_default();
            let state = st.rsplit(')').next().unwrap_or("").trim_start().chars().next().unwrap_or('R');
            if state != 'S' && state != 'D' {
                return false;
            }
        }
        true
    }
    fn enter(&self, t: usize, op: usize) {
        let done = self.slots[t].load(Ordering::Relaxed) & 0xffff_ffff_ffff;
        self.slots[t].store(((op as u64) << 48) | done, Ordering::SeqCst);
        *self.since[t].lock() = Instant::now();
    }
    fn leave(&self, t: usize) {
        let done = (self.slots[t].load(Ordering::Relaxed) & 0xffff_ffff_ffff) + 1;
        self.slots[t].store(done, Ordering::SeqCst);
    }
    fn finish(&self, t: usize) {
        let done = self.slots[t].load(Ordering::Relaxed) & 0xffff_ffff_ffff;
        self.slots[t].store((9u64 << 48) | done, Ordering::SeqCst);
    }
    fn describe(&self) -> (Vec<String>, Vec<usize>) {
        let mut out = Vec::new();
        let mut blocked = Vec::new();
        for (t, s) in self.slots.iter().enumerate() {
            let v = s.load(Ordering::SeqCst);
            let op = (v >> 48) as usize;
            let ms = self.since[t].lock().elapsed().as_millis();
            if op != 0 && op != 9 {
                blocked.push(op);
                out.push(format!("thread {} inside {}() for {} ms after {} completed ops", t, OPN[op.min(11)], ms, v & 0xffff_ffff_ffff));
            }
        }
        (out, blocked)
    }
    fn total(&self) -> u64 {
        self.slots.iter().map(|s| s.load(Ordering::SeqCst)).fold(0u64, |a, b| a.wrapping_add(b))
    }
}

fn cpu_ticks() -> u64 {
    let s = std::fs::read_to_string("/proc/self/stat").unwrap_or_default();
    let rest = s.rsplit(')').next().unwrap_or("");
    let f: Vec<&str> = rest.split_whitespace().collect();
    // after ')' : state(0) ppid(1) ... utime is field 14 overall => index 11 here, stime 12
    let u: u64 = f.get(11).and_then(|x| x.parse().ok()).unwrap_or(0);
    let st: u64 = f.get(12).and_then(|x| x.parse().ok()).unwrap_or(0);
    u + st
}

pub fn thread_count() -> usize {
    std::fs::read_dir("/proc/self/task").map(|d| d.count()).unwrap_or(0)
}

/// Emit a result line and leave the process: used when blocked threads make returning impossible.
fn emit_and_exit(r: &SResult) -> ! {
    use std::io::Write;
    let o = std::io::stdout();
    let mut o = o.lock();
    let _ = writeln!(o, "{}", serde_json::to_string(r).unwrap());
    let _ = o.flush();
    std::process::exit(3);
}

/// Run `body` on a helper thread. If no client makes progress for `grace`, collect state
/// evidence; if it shows that nothing can make progress (every unfinished client inside a blocking
/// call, process CPU flat over an observation window) the hang result built by `mk_hang` is
/// emitted and the process exits (the blocked threads cannot be joined). Busy without progress
/// for 20 s is reported as "busy" (inconclusive), never as a violation.
fn watch<R: Send>(progress: &Arc<Progress>, grace: Duration, mk_hang: &(dyn Fn(&str, &[usize]) -> SResult + Sync), body: impl FnOnce() -> R + Send) -> R {
    let done = AtomicBool::new(false);
    std::thread::scope(|s| {
        let h = s.spawn(|| {
            let r = body();
            done.store(true, Ordering::SeqCst);
            r
        });
        let mut last = progress.total();
        let mut last_change = Instant::now();
        loop {
            // finished normally, or the body panicked (a client thread panicked): join below
            // re-raises it and the caller reports the panic
            if done.load(Ordering::SeqCst) || h.is_finished() {
                break;
            }
            std::thread::sleep(Duration::from_millis(2));
            let now = progress.total();
            if now != last {
                last = now;
                last_change = Instant::now();
                continue;
            }
            if last_change.elapsed() > grace {
                let c0 = cpu_ticks();
                let w0 = stretto::verif::workers();
                let asleep0 = progress.blocked_clients_asleep();
                std::thread::sleep(Duration::from_millis(400));
                let c1 = cpu_ticks();
                let asleep1 = progress.blocked_clients_asleep();
                if progress.total() != last || done.load(Ordering::SeqCst) {
                    last_change = Instant::now();
                    continue;
                }
                let (desc, blocked) = progress.describe();
                let w1 = stretto::verif::workers();
                let flat = c1.saturating_sub(c0) <= 2 && asleep0 && asleep1;
                let ev = format!(
                    "no client progress for {} ms; {}; background processors constructed {} / dropped {} (unchanged over the window: {}); process CPU ticks in the last 400 ms: {}; async tasks started {} finished {}",
                    last_change.elapsed().as_millis(),
                    desc.join("; "),
                    w1.0,
                    w1.1,
                    w0 == w1,
                    c1.saturating_sub(c0),
                    TASKS_STARTED.load(Ordering::SeqCst),
                    TASKS_FINISHED.load(Ordering::SeqCst),
                );
                // nobody is left who could release a waiter: every processor built for this case
                // has been dropped and every unfinished client sits in wait() (the async
                // wait-group future re-polls itself, so such a waiter burns CPU instead of sleeping)
                let base = progress.workers_base;
                let all_workers_gone = w1.0 > base.0 && (w1.0 - base.0) == (w1.1 - base.1);
                let only_waiters = !blocked.is_empty() && blocked.iter().all(|b| *b == 6);
                if !blocked.is_empty() && (flat || (only_waiters && all_workers_gone && w0 == w1)) {
                    emit_and_exit(&mk_hang(&ev, &blocked));
                }
                if last_change.elapsed() > Duration::from_secs(20) {
                    emit_and_exit(&SResult { status: "busy".into(), msg: ev, ..Default::default() });
                }
            }
        }
        match h.join() {
            Ok(r) => r,
            Err(p) => std::panic::resume_unwind(p),
        }
    })
}

// ------------------------------------------------------------------------------------------
// case execution
// ------------------------------------------------------------------------------------------

struct Shared {
    serial: AtomicU32,
    /// values handed to insert (before the call), by key
    issued: Mutex<HashMap<u32, HashSet<Val>>>,
    /// explicit cost each issued value was written with
    val_cost: Mutex<HashMap<Val, i64>>,
    /// insert returned true: (value, clear epoch at return)
    accepted: Mutex<Vec<(Val, u32)>>,
    cb: RecTs,
    /// even: no clear in progress; incremented before and after every clear()/close()
    clear_seq: AtomicU32,
    errs: AtomicU32,
    lookups: AtomicU64,
    closed_ok: AtomicBool,
    /// monotonic instant at which the first close() returned Ok (0: none yet)
    closed_ok_ns: AtomicU64,
    /// an insert that began after that instant and was accepted
    late_accept: Mutex<Option<String>>,
    violations: Mutex<Vec<SResult>>,
    history: Mutex<Vec<String>>,
    clears: AtomicU32,
    /// logical clock for "returned before ... began after"
    lclock: AtomicU64,
    /// insert(v) returned true at this stamp
    ret_stamp: Mutex<HashMap<Val, u64>>,
    /// (call began, call returned Ok) of every clear()
    clear_spans: Mutex<Vec<(u64, u64)>>,
    /// insert(v) that returned true began at this monotone time
    begin_ns: Mutex<HashMap<Val, u64>>,
    /// collide parts: (key or u32::MAX for clear, call began, call ended or u64::MAX) of every
    /// insert / insert_if_present / remove / clear, in logical time
    key_events: Mutex<Vec<(u32, u64, u64, u32)>>,
    track_keys: AtomicBool,
    /// (began, returned Ok at) of every wait() that succeeded, in logical time
    wait_spans: Mutex<Vec<(u64, u64)>>,
}

/// monotone nanoseconds since the first use in this process
fn mono_ns() -> u64 {
    static BASE: std::sync::OnceLock<Instant> = std::sync::OnceLock::new();
    BASE.get_or_init(Instant::now).elapsed().as_nanos() as u64 + 1
}

/// when the first close() of the running case passed its internal clear (yield point
/// `close.after_clear`); 0 = not yet
static CLOSE_CLEAR_DONE_NS: AtomicU64 = AtomicU64::new(0);
/// stretch the window between close()'s clear and its stop signal (Close kind)
static CLOSE_STRETCH: AtomicBool = AtomicBool::new(false);

fn perturb_hook(seed: u64) {
    PERTURB_CTR.store(seed, Ordering::Relaxed);
    if seed == 0 {
        stretto::verif::set_global_yield_hook(None);
        return;
    }
    let ctr = AtomicU64::new(seed);
    stretto::verif::set_global_yield_hook(Some(Arc::new(move |id| {
        if id == "close.after_clear" {
            let _ = CLOSE_CLEAR_DONE_NS.compare_exchange(0, mono_ns(), Ordering::SeqCst, Ordering::SeqCst);
            if CLOSE_STRETCH.load(Ordering::SeqCst) {
                std::thread::sleep(Duration::from_micros(400));
            }
        }
        let mut x = ctr.fetch_add(0x9E37_79B9_7F4A_7C15, Ordering::Relaxed);
        x ^= x >> 29;
        x = x.wrapping_mul(0xBF58_476D_1CE4_E5B9);
        x ^= x >> 32;
        match x % 8 {
            0 | 1 => std::thread::yield_now(),
            2 => {
                for _ in 0..(x >> 8) % 2000 {
                    std::hint::spin_loop();
                }
            }
            3 => std::thread::sleep(Duration::from_micros((x >> 8) % 200)),
            _ => {}
        }
    })));
}

pub fn run_stress_case(case: &StressCase) -> SResult {
    let _ = panics_take();
    // The process-wide virtual clock never goes back and is never handed back to the real clock:
    // a worker of an earlier case that is still winding down in this process must not see
    // SystemTime jump (stretto unwraps `created_at.elapsed()`).
    if clock::global_now() < 0 {
        clock::set_global(Some(T0));
    } else {
        clock::advance_global(10_000_000_000);
    }
    perturb_hook(case.perturb);
    let r = std::panic::catch_unwind(std::panic::AssertUnwindSafe(|| run_inner(case)));
    stretto::verif::set_global_yield_hook(None);
    let panics = panics_take();
    match r {
        Ok(mut res) => {
            if res.status == "ok" && !panics.is_empty() {
                let in_harness = panics.iter().filter(|p| !p.contains("a scoped thread panicked")).all(|p| p.contains(" at src/"));
                if in_harness {
                    res = SResult { status: "harness".into(), msg: panics.join(" | "), ..Default::default() };
                } else {
                    res = SResult::violation(&["C20", "C12"], "panic_in_library", format!("a thread panicked: {}", panics.join(" | ")));
                }
            }
            res
        }
        Err(_) => {
            // the re-raised "a scoped thread panicked" is only the messenger
            let real: Vec<&String> = panics.iter().filter(|p| !p.contains("a scoped thread panicked")).collect();
            let in_harness = real.is_empty() || real.iter().all(|p| p.contains(" at src/"));
            if in_harness {
                SResult { status: "harness".into(), msg: panics.join(" | "), ..Default::default() }
            } else {
                SResult::violation(&["C20", "C12"], "panic_in_caller", format!("an operation panicked in the caller: {}", panics.join(" | ")))
            }
        }
    }
}

fn run_inner(case: &StressCase) -> SResult {
    let cb = RecTs::default();
    let base_threads = thread_count();
    let w_before = stretto::verif::workers();
    let t_before = (TASKS_STARTED.load(Ordering::SeqCst), TASKS_FINISHED.load(Ordering::SeqCst));
    // builder validation (C20)
    let api = match build_api(case.exec, &case.cfg, cb.clone()) {
        Ok(a) => {
            if case.cfg.num_counters == 0 || case.cfg.max_cost == 0 || case.cfg.buffer_size == 0 {
                return SResult::violation(&["C20"], "zero_param_accepted", format!("configuration {:?} was accepted", case.cfg));
            }
            a
        }
        Err(e) => {
            let want = if case.cfg.num_counters == 0 {
                "InvalidNumCounters"
            } else if case.cfg.max_cost == 0 {
                "InvalidMaxCost"
            } else if case.cfg.buffer_size == 0 {
                "InvalidBufferSize"
            } else {
                ""
            };
            let got = format!("{:?}", e);
            if want.is_empty() || !got.starts_with(want) {
                return SResult::violation(&["C20"], "builder_error", format!("configuration {:?}: finalize returned {:?}, expected {}", case.cfg, e, if want.is_empty() { "Ok" } else { want }));
            }
            let mut r = SResult::ok();
            r.classes.push("rejected_zero_param".into());
            r.nontrivial = true;
            return r;
        }
    };
    let sh = Arc::new(Shared {
        serial: AtomicU32::new(0),
        issued: Mutex::new(HashMap::new()),
        val_cost: Mutex::new(HashMap::new()),
        accepted: Mutex::new(Vec::new()),
        cb: cb.clone(),
        clear_seq: AtomicU32::new(0),
        errs: AtomicU32::new(0),
        lookups: AtomicU64::new(0),
        closed_ok: AtomicBool::new(false),
        closed_ok_ns: AtomicU64::new(0),
        late_accept: Mutex::new(None),
        violations: Mutex::new(Vec::new()),
        history: Mutex::new(Vec::new()),
        clears: AtomicU32::new(0),
        lclock: AtomicU64::new(1),
        ret_stamp: Mutex::new(HashMap::new()),
        clear_spans: Mutex::new(Vec::new()),
        begin_ns: Mutex::new(HashMap::new()),
        key_events: Mutex::new(Vec::new()),
        wait_spans: Mutex::new(Vec::new()),
        track_keys: AtomicBool::new((case.cfg.collide || std::env::var("VERIF_TRACK_ALL").is_ok()) && case.cfg.max_cost >= 1 << 40),
    });
    CLOSE_CLEAR_DONE_NS.store(0, Ordering::SeqCst);
    CLOSE_STRETCH.store(case.kind == Kind::Close && case.perturb % 2 == 0, Ordering::SeqCst);
    if case.kind == Kind::Reclaim {
        return run_reclaim(case, api, &cb);
    }
    if case.kind == Kind::Validated {
        return run_validated(case, api);
    }
    if case.kind == Kind::Lookups {
        return run_lookups(case, api);
    }
    let n = case.threads.len();
    let mut progress_init = Progress::new(n + 1);
    Arc::get_mut(&mut progress_init).unwrap().workers_base = w_before;
    let progress = progress_init;
    let barrier = Arc::new(Barrier::new(n));
    let api: Arc<Box<dyn Api>> = Arc::new(api);
    let overlap_wait_close = Arc::new(AtomicBool::new(false));

    let run_threads = || {
        std::thread::scope(|s| {
            for (t, script) in case.threads.iter().enumerate() {
                let api = api.dup();
                let sh = sh.clone();
                let progress = progress.clone();
                let barrier = barrier.clone();
                let kind = case.kind;
                s.spawn(move || {
                    progress.register(t);
                    barrier.wait();
                    client(t, kind, api, script, &sh, &progress);
                    progress.finish(t);
                });
            }
        })
    };
    let grace = Duration::from_millis(1500);
    let any_close = case.threads.iter().flatten().any(|o| matches!(o, SOp::Close));
    let sh_h = sh.clone();
    let mk_hang = move |ev: &str, blocked: &[usize]| -> SResult {
        let waiting = blocked.iter().any(|b| *b == 6);
        let closing = sh_h.closed_ok.load(Ordering::SeqCst) || any_close;
        let props: &[&str] = if waiting { &["C10"] } else { &["C12", "C10"] };
        let pred = if waiting && closing {
            "wait_blocked_after_close"
        } else if waiting {
            "wait_blocked"
        } else {
            "call_blocked"
        };
        let mut r = SResult::violation(props, pred, format!("HANG {}", ev));
        r.status = "hang".into();
        r.history = sh_h.history.lock().clone();
        r
    };
    watch(&progress, grace, &mk_hang, run_threads);
    let _ = overlap_wait_close;
    if let Some(v) = sh.violations.lock().first().cloned() {
        let mut v = v;
        v.history = sh.history.lock().clone();
        return v;
    }
    let mut res = SResult::ok();
    let has = |f: &dyn Fn(&SOp) -> bool| case.threads.iter().flatten().any(|o| f(o));
    let closers = case.threads.iter().filter(|s| s.iter().any(|o| matches!(o, SOp::Close))).count();
    match case.kind {
        Kind::Barrier => {
            res.nontrivial = true;
            if has(&|o| matches!(o, SOp::Clear)) {
                res.classes.push("with_clear".into());
            }
        }
        Kind::WaitRace => {
            res.nontrivial = has(&|o| matches!(o, SOp::Wait)) && has(&|o| matches!(o, SOp::Clear | SOp::Close));
            if closers > 0 {
                res.classes.push("wait_vs_close".into());
            }
            if has(&|o| matches!(o, SOp::Clear)) {
                res.classes.push("wait_vs_clear".into());
            }
        }
        Kind::Close => {
            res.nontrivial = closers >= 2 || (closers >= 1 && n >= 2);
            if case.drop_only {
                res.classes.push("drop_only".into());
                res.nontrivial = true;
            }
            if closers >= 2 {
                res.classes.push("concurrent_closers".into());
            }
        }
        Kind::Config => {
            let c = &case.cfg;
            if c.defaults {
                res.classes.push("default_builder".into());
            }
            res.nontrivial = c.num_counters < 8 || !c.num_counters.is_power_of_two() || c.buffer_size <= 2 || c.buffer_items <= 1 || c.max_cost <= 1;
        }
        Kind::Invariants | Kind::Reclaim | Kind::Validated | Kind::Lookups => {}
    }
    // ---- post-run checks
    let post = progress.clone();
    let post_sh = sh.clone();
    let api2 = api.clone();
    let kind = case.kind;
    let drop_only = case.drop_only;
    let exec = case.exec;
    let cfg = case.cfg.clone();
    let wb = w_before;
    let lone_closer = case.threads.len() == 1;
    let single_close = case.threads.iter().flatten().filter(|o| matches!(o, SOp::Close)).count() == 1 && !case.threads.iter().flatten().any(|o| matches!(o, SOp::Clear));
    let check = move || -> Option<SResult> {
        let t = n;
        post.register(t);
        match kind {
            Kind::Close => {
                if let Some(m) = post_sh.late_accept.lock().clone() {
                    return Some(SResult::violation(&["C12"], "insert_accepted_after_close", m));
                }
                if !drop_only {
                    // a close() has returned Ok during the run: from then on nothing may panic,
                    // the unwrapping variants included
                    if post_sh.closed_ok.load(Ordering::SeqCst) {
                        post.enter(t, 3);
                        let rw = api2.wrappers(1, Val { key: 1, serial: u32::MAX - 1, tag: 1 });
                        post.leave(t);
                        if let Err(p) = rw {
                            return Some(SResult::violation(&["C12", "C20"], "panic_after_close", format!("after a close() that returned Ok, remove()/insert() (the unwrapping variants) panicked: {}", p)));
                        }
                    }
                    post.enter(t, 8);
                    let r = api2.close();
                    post.leave(t);
                    if post_sh.closed_ok.load(Ordering::SeqCst) && r.is_err() {
                        return Some(SResult::violation(&["C12"], "close_after_close", format!("close() after a successful close returned {:?}", r)));
                    }
                    if r.is_ok() {
                        post_sh.closed_ok.store(true, Ordering::SeqCst);
                    }
                    if post_sh.closed_ok.load(Ordering::SeqCst) {
                        // final: everything inert, nothing blocks
                        let v = Val { key: 1, serial: u32::MAX, tag: 1 };
                        post.enter(t, 1);
                        let ins = api2.insert(1, v, 1, Duration::ZERO);
                        post.leave(t);
                        if ins != Ok(false) {
                            return Some(SResult::violation(&["C12"], "insert_after_close", format!("insert after close returned {:?}", ins)));
                        }
                        post.enter(t, 2);
                        let ins = api2.iip(1, v, 1);
                        post.leave(t);
                        if ins != Ok(false) {
                            return Some(SResult::violation(&["C12"], "insert_after_close", format!("insert_if_present after close returned {:?}", ins)));
                        }
                        let m_before = api2.metrics().map(|m| (m.hits, m.misses));
                        for k in 0..6u64 {
                            post.enter(t, 4);
                            let g = api2.get(k);
                            let gm = api2.get_mut(k);
                            post.leave(t);
                            if g.is_some() || gm.is_some() {
                                return Some(SResult::violation(&["C12"], "get_after_close", format!("lookup of key {} after close returned {:?}/{:?}", k, g, gm)));
                            }
                        }
                        // C17: hits + misses count the lookups made on the *open* cache
                        let m_after = api2.metrics().map(|m| (m.hits, m.misses));
                        if let (Some(b), Some(a)) = (m_before, m_after) {
                            if a != b {
                                return Some(SResult::violation(&["C17"], "lookup_counted_after_close", format!("twelve lookups on the closed cache moved (hits, misses) from {:?} to {:?}", b, a)));
                            }
                        }
                        // "without effect" is judged once the workers have wound down: a processor
                        // that is still applying what racing clients had buffered before the close
                        // changes the cache on its own (async close() does not wait for it)
                        let quiet = {
                            let deadline = Instant::now() + Duration::from_secs(4);
                            loop {
                                let w = stretto::verif::workers();
                                if w.0 - wb.0 == w.1 - wb.1 {
                                    break true;
                                }
                                if Instant::now() > deadline {
                                    break false;
                                }
                                std::thread::sleep(Duration::from_millis(1));
                            }
                        };
                        let before = api2.snapshot();
                        // (No conservation claim for values accepted while a close() is under way: C08
                        // quantifies over histories of inserts, updates, removes, expirations and
                        // evictions - not over operations racing a close(), whose only documented
                        // duties are C12's. An earlier predicate `accepted_during_close_lost` demanded
                        // it and fired on the unchanged tree: an insert that lands after the stop
                        // drain's last look and before the processor drops its receiver is accepted
                        // and never applied.)
                        // C19: a lone close() (nothing racing it) leaves the synchronous cache empty
                        // - close() clears before it stops the workers - and the async cache must
                        // show the same
                        if quiet && lone_closer && exec.is_async() {
                            let l = api2.len();
                            if !before.entries.is_empty() || !before.costs.is_empty() || l != 0 {
                                return Some(SResult::violation(
                                    &["C19"],
                                    "async_close_differs",
                                    format!("after a lone close() the async cache still holds {} entries / {} charges (len() {}); the synchronous cache is empty at this point", before.entries.len(), before.costs.len(), l),
                                ));
                            }
                        }
                        post.enter(t, 3);
                        // (aimed at an entry the closed cache still holds, if a racing insert left one)
                        let target = before.entries.first().map(|e| e.value.key as u64).unwrap_or(1);
                        let r1 = api2.remove(target);
                        post.leave(t);
                        post.enter(t, 7);
                        let r2 = api2.clear();
                        post.leave(t);
                        post.enter(t, 6);
                        let r3 = api2.wait();
                        post.leave(t);
                        post.enter(t, 8);
                        let r4 = api2.close();
                        post.leave(t);
                        // the panicking wrappers must be just as inert on a closed cache
                        let rw = api2.wrappers(1, v);
                        if rw != Ok(false) {
                            return Some(SResult::violation(&["C12", "C20"], "wrappers_after_close", format!("after close: remove()/insert() (the unwrapping variants) gave {:?}, expected no panic and insert == false", rw)));
                        }
                        if r1.is_err() || r2.is_err() || r3.is_err() || r4.is_err() {
                            return Some(SResult::violation(&["C12"], "ops_after_close", format!("after close: remove {:?} clear {:?} wait {:?} close {:?}", r1, r2, r3, r4)));
                        }
                        let after = api2.snapshot();
                        if quiet && (before.entries.len() != after.entries.len() || before.costs != after.costs) {
                            return Some(SResult::violation(&["C12"], "effect_after_close", "operations after close changed the cache".to_string()));
                        }
                    }
                }
                None
            }
            Kind::Config => liveness_probe(&**api2, &post, &post_sh, t, &["C20"], &cfg, exec),
            _ => None,
        }
    };
    let kind_h = case.kind;
    let mk_hang2 = move |ev: &str, _blocked: &[usize]| -> SResult {
        let props: &[&str] = match kind_h {
            Kind::Config => &["C20"],
            Kind::Close => &["C12"],
            _ => &["C10"],
        };
        let mut r = SResult::violation(props, "call_blocked_after_run", format!("HANG {}", ev));
        r.status = "hang".into();
        r
    };
    if let Some(v) = watch(&progress, grace, &mk_hang2, check) {
        return v;
    }
    // quiescence-based invariants
    // (with shared index hashes the charge bookkeeping is not claimed - D9 -: inline value checks only)
    if matches!(case.kind, Kind::Invariants | Kind::Barrier) && !case.cfg.collide {
        if let Some(v) = watch(&progress, grace, &mk_hang2, || quiescent_invariants(case, &api, &sh, &progress)) {
            return v;
        }
    }
    // a cache that was never closed stays usable whatever the clients did to it (after the
    // invariants: the probe's own insert and lookup are not part of the recorded history)
    if matches!(case.kind, Kind::Invariants) {
        let t = case.threads.len();
        if let Some(v) = watch(&progress, grace, &mk_hang2, || liveness_probe(&**api, &progress, &sh, t, &["C11", "C04", "C20"], &case.cfg, case.exec)) {
            return v;
        }
    }
    if matches!(case.kind, Kind::Invariants) {
        let accepted = sh.accepted.lock().len();
        let evs = sh.cb.log.lock().len();
        res.nontrivial = accepted > 0 && evs > 0 && n >= 2;
        if sh.clears.load(Ordering::SeqCst) > 0 {
            res.classes.push("with_clear".into());
        }
        if sh.errs.load(Ordering::SeqCst) > 0 {
            res.classes.push("op_returned_err".into());
        }
    }
    // worker termination (C12, C20)
    if matches!(case.kind, Kind::Close | Kind::Config) {
        let closed = sh.closed_ok.load(Ordering::SeqCst);
        let must_exit = closed || case.drop_only;
        if case.kind == Kind::Config {
            // liveness of the workers before we let go of the cache
            let w = stretto::verif::workers();
            if w.1 > w_before.1 && !closed {
                return SResult::violation(&["C20"], "worker_died", format!("configuration {:?}: a background processor went away during the workload (constructed {} dropped {})", case.cfg, w.0 - w_before.0, w.1 - w_before.1));
            }
        }
        // "the background workers terminate after close()": while handles are still alive (once
        // every handle is gone the workers stop anyway, which would hide a lost stop signal)
        if case.kind == Kind::Close && closed && !case.drop_only {
            let deadline = Instant::now() + Duration::from_secs(4);
            loop {
                let w = stretto::verif::workers();
                let started = w.0 - w_before.0;
                let exited = w.1 - w_before.1;
                let tasks_ok = !case.exec.is_async() || (TASKS_FINISHED.load(Ordering::SeqCst) - t_before.1) == (TASKS_STARTED.load(Ordering::SeqCst) - t_before.0);
                if started == exited && tasks_ok {
                    break;
                }
                if Instant::now() > deadline {
                    let c0 = cpu_ticks();
                    std::thread::sleep(Duration::from_millis(300));
                    let busy = cpu_ticks() - c0 > 3;
                    let msg = format!(
                        "close() returned Ok and a handle is still alive, but after 4 s the background workers have not terminated: processors constructed {} dropped {}; async tasks started {} finished {}{}",
                        started,
                        exited,
                        TASKS_STARTED.load(Ordering::SeqCst) - t_before.0,
                        TASKS_FINISHED.load(Ordering::SeqCst) - t_before.1,
                        if busy { " (CPU busy)" } else { "" }
                    );
                    return SResult::violation(&["C12"], "workers_remain_after_close", msg);
                }
                std::thread::sleep(Duration::from_millis(2));
            }
            res.classes.push("workers_terminated_with_handle_alive".into());
        }
        drop(api);
        if must_exit || case.kind == Kind::Config {
            let deadline = Instant::now() + Duration::from_secs(4);
            loop {
                let w = stretto::verif::workers();
                let started = w.0 - w_before.0;
                let exited = w.1 - w_before.1;
                let threads_ok = case.exec != Exec::Sync || thread_count() <= base_threads;
                let tasks_ok = !case.exec.is_async() || (TASKS_FINISHED.load(Ordering::SeqCst) - t_before.1) == (TASKS_STARTED.load(Ordering::SeqCst) - t_before.0);
                if started == exited && threads_ok && tasks_ok {
                    break;
                }
                if Instant::now() > deadline {
                    let c0 = cpu_ticks();
                    std::thread::sleep(Duration::from_millis(300));
                    let busy = cpu_ticks() - c0 > 3;
                    let msg = format!(
                        "{} after {}: background processors constructed {} dropped {}; OS threads {} (baseline {}); async tasks started {} finished {}",
                        if busy { "workers still running (CPU busy)" } else { "workers did not terminate" },
                        if case.drop_only { "dropping every handle" } else { "close()" },
                        started,
                        exited,
                        thread_count(),
                        base_threads,
                        TASKS_STARTED.load(Ordering::SeqCst) - t_before.0,
                        TASKS_FINISHED.load(Ordering::SeqCst) - t_before.1
                    );
                    if busy && !case.drop_only {
                        return SResult { status: "busy".into(), msg, ..Default::default() };
                    }
                    return SResult::violation(&["C12"], "workers_remain", msg);
                }
                std::thread::sleep(Duration::from_millis(2));
            }
            res.classes.push("workers_terminated".into());
        }
    }
    if TASKS_PANICKED.swap(0, Ordering::SeqCst) > 0 {
        return SResult::violation(&["C20", "C12", "C19"], "task_panicked", "a background task panicked".to_string());
    }
    res
}

fn client(t: usize, kind: Kind, api: Box<dyn Api>, script: &[SOp], sh: &Shared, progress: &Progress) {
    let mut api = Some(api);
    // Barrier kind: owned keys and what this thread expects of them
    let mut expect: BTreeMap<u32, Option<Val>> = BTreeMap::new();
    let mut touched: BTreeSet<u32> = BTreeSet::new();
    // keys on which an operation returned Err: store and policy may disagree from then on (the
    // precondition of C06), so nothing is claimed about them any more
    let mut tainted: BTreeSet<u32> = BTreeSet::new();
    let mut batch_seq = sh.clear_seq.load(Ordering::SeqCst);
    let mut batch_err = false;
    let hist = |s: String| {
        let mut h = sh.history.lock();
        if h.len() < 400 {
            h.push(format!("t{} {}", t, s));
        }
    };
    // collide parts (ample capacity, no TTLs): a value one lookup saw can only disappear through an
    // insert / insert_if_present / remove of that key or a clear()
    let track = sh.track_keys.load(Ordering::SeqCst);
    // (serial: of the value an insert carries, 0 otherwise)
    let ev_begin = |k: u32, serial: u32| -> usize {
        if !track {
            return 0;
        }
        let b = sh.lclock.fetch_add(1, Ordering::SeqCst);
        let mut g = sh.key_events.lock();
        g.push((k, b, u64::MAX, serial));
        g.len() - 1
    };
    let ev_end = |i: usize| {
        if track {
            let e = sh.lclock.fetch_add(1, Ordering::SeqCst);
            sh.key_events.lock()[i].2 = e;
        }
    };
    let mut last_seen: HashMap<u32, (Val, u64)> = HashMap::new();
    for op in script {
        let a = match api.as_ref() {
            Some(a) => a,
            None => break,
        };
        match op {
            SOp::Insert { k, cost, ttl_ms } => {
                let k = if kind == Kind::Barrier { own_key(t, *k) } else { *k };
                let s = sh.serial.fetch_add(1, Ordering::SeqCst) + 1;
                let v = Val { key: k, serial: s, tag: (*cost).clamp(0, 1000) as u32 + 1 };
                sh.issued.lock().entry(k).or_default().insert(v);
                sh.val_cost.lock().insert(v, *cost);
                let seq_before = sh.clear_seq.load(Ordering::SeqCst);
                let began = mono_ns();
                let evi = ev_begin(k, v.serial);
                progress.enter(t, 1);
                let r = a.insert(k as u64, v, *cost, ttl_of(*ttl_ms));
                progress.leave(t);
                ev_end(evi);
                hist(format!("insert({}, {}, cost {}, ttl {}ms) = {:?}", k, v, cost, ttl_ms, r));
                match r {
                    Ok(true) => {
                        // a clear()/close() that overlapped the call leaves an odd or changed number
                        let seq_after = sh.clear_seq.load(Ordering::SeqCst);
                        sh.accepted.lock().push((v, if seq_after == seq_before { seq_before } else { u32::MAX }));
                        sh.begin_ns.lock().insert(v, began);
                        let st = sh.lclock.fetch_add(1, Ordering::SeqCst);
                        sh.ret_stamp.lock().insert(v, st);
                        if kind == Kind::Barrier {
                            if touched.insert(k) {
                                expect.insert(k, Some(v));
                            } else {
                                expect.remove(&k);
                            }
                        }
                        // C12: once a close() has returned Ok, insert returns false - an insert that
                        // *began* after that return (monotonic clock) must not be accepted
                        let c_ns = sh.closed_ok_ns.load(Ordering::SeqCst);
                        if c_ns != 0 && began > c_ns {
                            sh.late_accept.lock().get_or_insert_with(|| format!("insert of key {} began {} us after a close() had returned Ok and returned true", k, (began - c_ns) / 1000));
                        }
                    }
                    Ok(false) => {
                        if kind == Kind::Barrier && !touched.insert(k) {
                            expect.remove(&k);
                        }
                    }
                    Err(_) => {
                        sh.errs.fetch_add(1, Ordering::SeqCst);
                        batch_err = true;
                    }
                }
            }
            SOp::Iip { k, cost } => {
                let k = if kind == Kind::Barrier { own_key(t, *k) } else { *k };
                let s = sh.serial.fetch_add(1, Ordering::SeqCst) + 1;
                let v = Val { key: k, serial: s, tag: (*cost).clamp(0, 1000) as u32 + 1 };
                sh.issued.lock().entry(k).or_default().insert(v);
                sh.val_cost.lock().insert(v, *cost);
                let seq_before = sh.clear_seq.load(Ordering::SeqCst);
                let evi = ev_begin(k, v.serial);
                progress.enter(t, 2);
                let r = a.iip(k as u64, v, *cost);
                progress.leave(t);
                ev_end(evi);
                hist(format!("insert_if_present({}, {}) = {:?}", k, v, r));
                match r {
                    Ok(true) => {
                        let seq_after = sh.clear_seq.load(Ordering::SeqCst);
                        sh.accepted.lock().push((v, if seq_after == seq_before { seq_before } else { u32::MAX }));
                        if kind == Kind::Barrier {
                            if touched.insert(k) {
                                expect.insert(k, Some(v));
                            } else {
                                expect.remove(&k);
                            }
                        }
                    }
                    Ok(false) => {
                        if kind == Kind::Barrier {
                            touched.insert(k);
                        }
                    }
                    Err(_) => {
                        sh.errs.fetch_add(1, Ordering::SeqCst);
                        batch_err = true;
                    }
                }
            }
            SOp::Remove { k } => {
                let k = if kind == Kind::Barrier { own_key(t, *k) } else { *k };
                let evi = ev_begin(k, 0);
                progress.enter(t, 3);
                let r = a.remove(k as u64);
                progress.leave(t);
                ev_end(evi);
                hist(format!("remove({}) = {:?}", k, r));
                match r {
                    Ok(()) => {
                        if kind == Kind::Barrier {
                            // a remove that returned Ok is ordered after everything this thread
                            // queued for the key before: whatever happened earlier, once the
                            // barrier has passed the key is gone
                            touched.insert(k);
                            expect.insert(k, None);
                        }
                    }
                    Err(_) => {
                        sh.errs.fetch_add(1, Ordering::SeqCst);
                        batch_err = true;
                        expect.remove(&k);
                        tainted.insert(k);
                    }
                }
            }
            SOp::Get { k } | SOp::GetMut { k } | SOp::GetLinger { k, .. } => {
                let k = if kind == Kind::Barrier { own_key(t, *k) } else { *k };
                let stamp = sh.cb.clock.load(Ordering::SeqCst);
                let gstart = sh.lclock.fetch_add(1, Ordering::SeqCst);
                let mutable = matches!(op, SOp::GetMut { .. } | SOp::GetLinger { mutable: true, .. });
                progress.enter(t, if mutable { 5 } else { 4 });
                let r = match op {
                    SOp::GetLinger { us, mutable, .. } => a.get_linger(k as u64, *us, *mutable),
                    _ if mutable => a.get_mut(k as u64),
                    _ => a.get(k as u64),
                };
                progress.leave(t);
                sh.lookups.fetch_add(1, Ordering::SeqCst);
                if track {
                    let gend = sh.lclock.fetch_add(1, Ordering::SeqCst);
                    match r {
                        Some(v) => {
                            last_seen.insert(k, (v, gend));
                        }
                        None => {
                            if let Some((v, t1)) = last_seen.remove(&k) {
                                // from the moment the write of v began: a remove issued meanwhile may be
                                // applied after v was stored (its Delete item is queued behind v's New)
                                // ... and a remove's Delete item may be applied long after the call
                                // returned: it counts as possibly pending until a wait() that began after
                                // it has returned Ok
                                let g = sh.key_events.lock();
                                let ws = sh.wait_spans.lock();
                                let t0 = g.iter().find(|e| e.3 == v.serial).map(|e| e.1).unwrap_or(0).min(t1);
                                let touched = g.iter().any(|(ek, b, e, ser)| {
                                    if *ser == v.serial || !(*ek == k || *ek == u32::MAX) || *b > gend {
                                        return false;
                                    }
                                    let settled = if *e == u64::MAX { u64::MAX } else { ws.iter().filter(|(wb, _)| *wb >= *e).map(|(_, we)| *we).min().unwrap_or(u64::MAX) };
                                    settled >= t0
                                });
                                drop(ws);
                                drop(g);
                                if !touched {
                                    sh.violations.lock().push(SResult::violation(
                                        &["C18", "C02"],
                                        "value_vanished",
                                        format!("thread {}: key {} held {} at logical time {}, a later lookup (ended at {}) finds nothing, and no other insert / remove of that key nor a clear() overlapped the time since its own write began (capacity is ample, nothing has a TTL): an operation on another key removed it", t, k, v, t1, gend),
                                    ));
                                }
                            }
                        }
                    }
                }
                if let Some(v) = r {
                    if v.key != k {
                        sh.violations.lock().push(SResult::violation(&["C02", "C18"], "lookup_other_key", format!("thread {}: lookup of key {} returned {} written under key {}", t, k, v, v.key)));
                    } else if !sh.issued.lock().get(&k).map(|s| s.contains(&v)).unwrap_or(false) {
                        sh.violations.lock().push(SResult::violation(&["C02"], "lookup_unissued", format!("thread {}: lookup of key {} returned {} which nobody wrote", t, k, v)));
                    } else {
                        // a callback for v that completed before this lookup began
                        let log = sh.cb.log.lock();
                        if let Some((ts, e)) = log.iter().find(|(ts, e)| *ts < stamp && e.val() == Some(v)) {
                            let m = format!("thread {}: lookup of key {} returned {} although it had been handed to {:?} (event {}) before the lookup began (clock {})", t, k, v, e, ts, stamp);
                            drop(log);
                            sh.violations.lock().push(SResult::violation(&["C08", "C02"], "lookup_after_callback", m));
                        }
                    }
                    // written before a clear() that had returned before this lookup began
                    let tr = sh.ret_stamp.lock().get(&v).copied();
                    if let Some(tr) = tr {
                        let hit = sh.clear_spans.lock().iter().find(|(s, e)| *s > tr && *e < gstart).copied();
                        if let Some((cs, ce)) = hit {
                            sh.violations.lock().push(SResult::violation(
                                &["C11", "C02"],
                                "served_after_clear",
                                format!("thread {}: lookup of key {} (began at logical time {}) returned {} whose insert had returned at {} - before a clear() that began at {} and returned at {}", t, k, gstart, v, tr, cs, ce),
                            ));
                        }
                    }
                }
            }
            SOp::GetTtl { k } => {
                progress.enter(t, 4);
                let _ = a.get_ttl(*k as u64);
                progress.leave(t);
            }
            SOp::GetHold { k, ms } => {
                progress.enter(t, 4);
                let r = a.get_hold(*k as u64, *ms);
                progress.leave(t);
                sh.lookups.fetch_add(1, Ordering::SeqCst);
                if let Some((v, t1, t2)) = r {
                    if v.key != *k {
                        sh.violations.lock().push(SResult::violation(&["C02"], "lookup_other_key", format!("thread {}: lookup of key {} returned {}", t, k, v)));
                    }
                    if t2 > t1 {
                        sh.violations.lock().push(SResult::violation(&["C03"], "ttl_increased", format!("thread {}: ValueRef::ttl() of key {} went from {:?} to {:?} while the reference was held", t, k, t1, t2)));
                    }
                }
            }
            SOp::Wait => {
                let seq0 = batch_seq;
                let wb = if track { sh.lclock.fetch_add(1, Ordering::SeqCst) } else { 0 };
                progress.enter(t, 6);
                let r = a.wait();
                progress.leave(t);
                if track && r.is_ok() {
                    let we = sh.lclock.fetch_add(1, Ordering::SeqCst);
                    sh.wait_spans.lock().push((wb, we));
                }
                let seq1 = sh.clear_seq.load(Ordering::SeqCst);
                hist(format!("wait() = {:?}", r));
                if kind == Kind::Barrier {
                    if r.is_ok() && !batch_err && seq0 == seq1 && seq0 % 2 == 0 {
                        // barrier: everything this thread issued before is applied
                        let snap_costs: Option<BTreeSet<u64>> = None;
                        let _ = snap_costs;
                        for (k, want) in expect.iter().filter(|(k, _)| !tainted.contains(k)) {
                            let got = a.get(*k as u64);
                            let seq2 = sh.clear_seq.load(Ordering::SeqCst);
                            if seq2 != seq0 {
                                break;
                            }
                            if got != *want {
                                sh.violations.lock().push(SResult::violation(
                                    &["C10"],
                                    "wait_barrier",
                                    format!("thread {}: after wait() returned Ok, key {} reads {:?}, expected {:?} (the thread's last operation on it before the wait)", t, k, got, want),
                                ));
                            }
                            let charged = a.snapshot().costs.iter().any(|(i, _)| *i == *k as u64);
                            let seq3 = sh.clear_seq.load(Ordering::SeqCst);
                            if seq3 == seq0 && charged != want.is_some() {
                                sh.violations.lock().push(SResult::violation(
                                    &["C10", "C06"],
                                    "wait_barrier_charge",
                                    format!("thread {}: after wait() returned Ok, key {} charged = {}, expected {}", t, k, charged, want.is_some()),
                                ));
                            }
                        }
                    }
                    expect.clear();
                    if r.is_ok() {
                        // only a successful barrier guarantees that nothing of this thread is
                        // still buffered; until then a second write to a key may be refused as a
                        // duplicate of the one still in flight
                        touched.clear();
                        batch_err = false;
                    }
                    batch_seq = sh.clear_seq.load(Ordering::SeqCst);
                } else if r.is_err() {
                    // legal: buffer full or closing
                }
            }
            SOp::Clear => {
                sh.clear_seq.fetch_add(1, Ordering::SeqCst);
                let cstart = sh.lclock.fetch_add(1, Ordering::SeqCst);
                let evi = ev_begin(u32::MAX, 0);
                progress.enter(t, 7);
                let r = a.clear();
                progress.leave(t);
                ev_end(evi);
                if r.is_ok() {
                    let cend = sh.lclock.fetch_add(1, Ordering::SeqCst);
                    sh.clear_spans.lock().push((cstart, cend));
                }
                sh.clear_seq.fetch_add(1, Ordering::SeqCst);
                sh.clears.fetch_add(1, Ordering::SeqCst);
                hist(format!("clear() = {:?}", r));
                if r.is_err() {
                    sh.errs.fetch_add(1, Ordering::SeqCst);
                }
                expect.clear();
                touched.clear();
                batch_seq = sh.clear_seq.load(Ordering::SeqCst);
            }
            SOp::Close => {
                sh.clear_seq.fetch_add(1, Ordering::SeqCst);
                progress.enter(t, 8);
                let r = a.close();
                progress.leave(t);
                sh.clear_seq.fetch_add(1, Ordering::SeqCst);
                hist(format!("close() = {:?}", r));
                if r.is_ok() {
                    let _ = sh.closed_ok_ns.compare_exchange(0, mono_ns().max(1), Ordering::SeqCst, Ordering::SeqCst);
                    sh.closed_ok.store(true, Ordering::SeqCst);
                }
            }
            SOp::UpdateMax { m } => a.update_max_cost(*m),
            SOp::Spin(n) => {
                for _ in 0..*n {
                    std::hint::spin_loop();
                }
            }
            SOp::Advance(ms) => {
                clock::advance_global(*ms as i64 * 1_000_000);
            }
            SOp::Len => {
                let _ = a.len();
            }
            SOp::DropHandle => {
                api = None;
            }
        }
    }
}

/// After the workload: the workers are alive - wait() returns Ok, a further insert is accepted and
/// processed (admitted or handed to a callback).
fn liveness_probe(api2: &dyn Api, post: &Progress, post_sh: &Shared, t: usize, props: &'static [&'static str], cfg: &SCfg, exec: Exec) -> Option<SResult> {
    let mut ok = false;
                let mut last = String::new();
                for _ in 0..2000 {
                    post.enter(t, 6);
                    let r = api2.wait();
                    post.leave(t);
                    match r {
                        Ok(()) => {
                            ok = true;
                            break;
                        }
                        Err(e) => {
                            last = e;
                            std::thread::sleep(Duration::from_micros(200));
                        }
                    }
                }
                if !ok {
                    return Some(SResult::violation(props, "wait_never_ok", format!("configuration {:?} ({:?}): wait() kept failing after the workload: {}", cfg, exec, last)));
                }
                let s = post_sh.serial.fetch_add(1, Ordering::SeqCst) + 1;
                let v = Val { key: 999_999, serial: s, tag: 1 };
                let mut accepted = false;
                for _ in 0..2000 {
                    post.enter(t, 1);
                    let r = api2.insert(999_999, v, 1, Duration::ZERO);
                    post.leave(t);
                    if r == Ok(true) {
                        accepted = true;
                        break;
                    }
                    std::thread::sleep(Duration::from_micros(200));
                }
                if !accepted {
                    return Some(SResult::violation(props, "insert_never_accepted", format!("configuration {:?}: insert kept returning false on an idle cache", cfg)));
                }
                let mut ok = false;
                for _ in 0..2000 {
                    post.enter(t, 6);
                    let r = api2.wait();
                    post.leave(t);
                    if r.is_ok() {
                        ok = true;
                        break;
                    }
                    std::thread::sleep(Duration::from_micros(200));
                }
                let resident = api2.get(999_999) == Some(v);
                let called = post_sh.cb.log.lock().iter().any(|(_, e)| e.val() == Some(v));
                if !ok || !(resident || called) {
                    return Some(SResult::violation(props, "insert_not_processed", format!("configuration {:?}: an insert after the workload was neither admitted nor rejected (wait ok: {})", cfg, ok)));
                }
    None
}

fn own_key(t: usize, k: u32) -> u32 {
    (t as u32) * 1000 + (k % 6)
}

fn quiescent_invariants(case: &StressCase, api: &Arc<Box<dyn Api>>, sh: &Arc<Shared>, progress: &Arc<Progress>) -> Option<SResult> {
    let t = case.threads.len();
    progress.register(t);
    // quiesce: wait() must succeed once (retry while the buffer is full)
    let mut ok = false;
    for _ in 0..5000 {
        progress.enter(t, 6);
        let r = api.wait();
        progress.leave(t);
        if r.is_ok() {
            ok = true;
            break;
        }
        std::thread::sleep(Duration::from_micros(100));
    }
    if !ok {
        return None; // nothing can be said
    }
    // The cleanup ticker keeps running: wait until it has nothing left to do (the virtual clock no
    // longer moves, so once every due bucket has been swept two snapshots a few ticks apart agree)
    let tick = Duration::from_millis(case.cfg.cleanup_ms.max(1));
    let mut snap = api.snapshot();
    let mut stable = false;
    for _ in 0..200 {
        std::thread::sleep(tick * 3 + Duration::from_millis(2));
        let again = api.snapshot();
        let same = again.costs == snap.costs
            && again.entries.len() == snap.entries.len()
            && again.entries.iter().zip(snap.entries.iter()).all(|(a, b)| a.index == b.index && a.value == b.value);
        snap = again;
        if same {
            stable = true;
            break;
        }
    }
    if !stable {
        return None;
    }
    let sum: i64 = snap.costs.iter().map(|(_, c)| *c).sum();
    if sum != snap.used {
        return Some(SResult::violation(&["C01"], "used_eq_sum", format!("at quiescence the charged total {} != sum of charges {}", snap.used, sum)));
    }
    let errs = sh.errs.load(Ordering::SeqCst);
    if errs == 0 {
        let sk: Vec<u64> = snap.entries.iter().map(|e| e.index).collect();
        let pk: Vec<u64> = snap.costs.iter().map(|(k, _)| *k).collect();
        if sk != pk {
            let props: &[&str] = if sk.iter().any(|k| !pk.contains(k)) { &["C06", "C01", "C16"] } else { &["C06"] };
            return Some(SResult::violation(props, "store_eq_policy", format!("at quiescence resident keys {:?} != charged keys {:?}", sk, pk)));
        }
        if snap.len != sk.len() {
            // the snapshot lists the entries first and reads len() afterwards: a difference that
            // does not persist is a store still changing (not yet quiescent), not a wrong len()
            let mut persistent = true;
            for _ in 0..3 {
                std::thread::sleep(tick * 2 + Duration::from_millis(1));
                let again = api.snapshot();
                if again.len == again.entries.len() {
                    persistent = false;
                    break;
                }
            }
            if persistent {
                return Some(SResult::violation(&["C06"], "len_eq_entries", format!("len() {} != resident entries {} (and still so in three later snapshots)", snap.len, sk.len())));
            }
            return None;
        }
    }
    // conservation
    let resident: HashSet<Val> = snap.entries.iter().map(|e| e.value).collect();
    let mut counts: HashMap<Val, (u32, u32, u32)> = HashMap::new();
    for (_, e) in sh.cb.log.lock().iter() {
        if let Some(v) = e.val() {
            let c = counts.entry(v).or_default();
            match e {
                Ev::Exit(_) => c.0 += 1,
                Ev::Evict(..) => c.1 += 1,
                Ev::Reject(..) => c.2 += 1,
                _ => {}
            }
        }
    }
    let final_seq = sh.clear_seq.load(Ordering::SeqCst);
    let accepted = sh.accepted.lock().clone();
    let acc_set: HashSet<Val> = accepted.iter().map(|a| a.0).collect();
    for (v, seq) in accepted.iter() {
        let c = counts.get(v).copied().unwrap_or((0, 0, 0));
        let n = resident.contains(v) as u32 + c.0 + c.1 + c.2;
        if n > 1 {
            return Some(SResult::violation(&["C08"], "callback_twice", format!("value {} accounted {} times at quiescence (resident {}, exit {}, evict {}, reject {})", v, n, resident.contains(v), c.0, c.1, c.2)));
        }
        // a clear overlapping or following the insert may drop the value silently
        if n == 0 && *seq == final_seq && seq % 2 == 0 {
            return Some(SResult::violation(&["C08"], "callback_conservation", format!("value {} was accepted (no clear since) but is neither resident nor handed to a callback", v)));
        }
    }
    for (v, c) in counts.iter() {
        if !acc_set.contains(v) && c.0 + c.1 + c.2 > 0 {
            // an insert that returned false must not surface in a callback... unless it is the
            // swapped-out value of an update whose own insert returned true: those are accepted.
            let issued = sh.issued.lock().get(&v.key).map(|s| s.contains(v)).unwrap_or(false);
            if !issued {
                return Some(SResult::violation(&["C08"], "callback_unknown_value", format!("callback for {} which nobody wrote", v)));
            }
        }
    }
    // C16, a validity predicate (which Update item the policy had applied when a victim was chosen
    // is the schedule's business): a rejected newcomer is reported with its own charge, and an
    // evicted / expired entry with the charge of *some* value written under its key - the given
    // cost, or the Coster's valuation when that was 0, plus the internal overhead
    if !case.cfg.collide {
        let internal = if case.cfg.ignore_internal_cost { 0 } else { crate::gen::item_size() };
        let vc = sh.val_cost.lock();
        let issued = sh.issued.lock();
        let charge = |v: &Val| vc.get(v).map(|c| (if *c == 0 { v.tag as i64 } else { *c }) + internal);
        let drains = case.threads.iter().flatten().any(|o| matches!(o, SOp::Clear | SOp::Close));
        for (_, e) in sh.cb.log.lock().iter() {
            match e {
                Ev::Reject(v, _, _, cost, ..) => {
                    if let Some(want) = charge(v) {
                        if *cost != want {
                            return Some(SResult::violation(&["C16"], "callback_cost_not_charged", format!("on_reject reports cost {} for {}, which was written with a charge of {}", cost, v, want)));
                        }
                    }
                }
                Ev::Evict(v, _, _, cost, ..) => {
                    // (a clear() or the stop drain hands the New items it discards from the
                    // buffer to on_evict as they were queued: never charged, the cost as given)
                    if drains && charge(v) == Some(*cost + internal) {
                        continue;
                    }
                    if let Some(set) = issued.get(&v.key) {
                        if vc.contains_key(v) && !set.iter().any(|o| charge(o) == Some(*cost)) {
                            let mut all: Vec<i64> = set.iter().filter_map(|o| charge(o)).collect();
                            all.sort_unstable();
                            all.dedup();
                            return Some(SResult::violation(&["C16"], "callback_cost_not_charged", format!("on_evict reports cost {} for {}; no value ever written under key {} was charged that (charges written: {:?})", cost, v, v.key, all)));
                        }
                    }
                }
                _ => {}
            }
        }
    }
    {
        let stamps = sh.ret_stamp.lock();
        let spans = sh.clear_spans.lock();
        for e in snap.entries.iter() {
            if let Some(tr) = stamps.get(&e.value) {
                if let Some((cs, ce)) = spans.iter().find(|(s, _)| *s > *tr) {
                    return Some(SResult::violation(
                        &["C11", "C02"],
                        "resident_after_clear",
                        format!("at quiescence {} is resident although its insert had returned (logical time {}) before a clear() that began at {} and returned at {}", e.value, tr, cs, ce),
                    ));
                }
            }
        }
    }
    for e in snap.entries.iter() {
        if e.value.key as u64 != e.index {
            return Some(SResult::violation(&["C02"], "value_under_wrong_key", format!("value {} resident under index {}", e.value, e.index)));
        }
    }
    if let Some(mv) = api.metrics() {
        if mv.keys_added.wrapping_sub(mv.keys_evicted) != snap.costs.len() as u64 {
            return Some(SResult::violation(&["C17"], "metrics_keys", format!("keys_added {} - keys_evicted {} != charged entries {}", mv.keys_added, mv.keys_evicted, snap.costs.len())));
        }
        if mv.cost_added.wrapping_sub(mv.cost_evicted) != snap.used as u64 {
            return Some(SResult::violation(&["C17"], "metrics_cost", format!("cost_added {} - cost_evicted {} != charged total {}", mv.cost_added, mv.cost_evicted, snap.used)));
        }
        if sh.clears.load(Ordering::SeqCst) == 0 && mv.hits + mv.misses != sh.lookups.load(Ordering::SeqCst) {
            return Some(SResult::violation(&["C17"], "metrics_lookups", format!("hits {} + misses {} != lookups {}", mv.hits, mv.misses, sh.lookups.load(Ordering::SeqCst))));
        }
        if mv.hist_count != mv.hist_bucket_sum {
            return Some(SResult::violation(&["C17"], "hist_count_eq_buckets", format!("histogram count {} != bucket sum {}", mv.hist_count, mv.hist_bucket_sum)));
        }
    }
    None
}

// ------------------------------------------------------------------------------------------
// generators
// ------------------------------------------------------------------------------------------

fn sop_common(nkeys: u32, max_cost: i64) -> BoxedStrategy<SOp> {
    let cost = prop_oneof![3 => 1i64..=4, 1 => Just(0i64), 1 => Just(max_cost.max(1)), 1 => Just((max_cost / 2).max(1))];
    prop_oneof![
        10 => (0..nkeys, cost.clone(), prop_oneof![8 => Just(0u32), 2 => Just(1u32), 2 => 1u32..2000, 1 => Just(u32::MAX)]).prop_map(|(k, cost, ttl_ms)| SOp::Insert { k, cost, ttl_ms }),
        2 => (0..nkeys, cost).prop_map(|(k, cost)| SOp::Iip { k, cost }),
        4 => (0..nkeys).prop_map(|k| SOp::Remove { k }),
        6 => (0..nkeys).prop_map(|k| SOp::Get { k }),
        1 => (0..nkeys).prop_map(|k| SOp::GetMut { k }),
        2 => (0..nkeys).prop_map(|k| SOp::GetTtl { k }),
        1 => (0u16..3000).prop_map(SOp::Spin),
    ]
    .boxed()
}

fn exec_strategy(async_pct: u32) -> BoxedStrategy<Exec> {
    prop_oneof![
        (100 - async_pct) => Just(Exec::Sync),
        async_pct => proptest::sample::select(vec![Exec::TokioMt, Exec::TokioCt, Exec::AsyncStd, Exec::ThreadPerTask]),
    ]
    .boxed()
}

pub fn stress_strategy(kind: Kind, async_pct: u32) -> BoxedStrategy<StressCase> {
    let isz = crate::gen::item_size();
    match kind {
        Kind::Barrier => (
            exec_strategy(async_pct),
            proptest::sample::select(vec![1usize, 2, 3, 8, 64]),
            1usize..=4,
            any::<bool>(),
            any::<u64>(),
        )
            .prop_flat_map(move |(exec, bs, nt, with_clear, perturb)| {
                let batch = proptest::collection::vec(
                    prop_oneof![
                        5 => (0u32..6, 1i64..4, prop_oneof![6 => Just(0u32), 1 => Just(3_600_000u32), 1 => Just(u32::MAX)]).prop_map(|(k, cost, ttl_ms)| SOp::Insert { k, cost, ttl_ms }),
                        2 => (0u32..6).prop_map(|k| SOp::Remove { k }),
                        1 => (0u32..6).prop_map(|k| SOp::Get { k }),
                        1 => (0u32..6, 1i64..4).prop_map(|(k, cost)| SOp::Iip { k, cost }),
                    ],
                    1..6,
                )
                .prop_map(|mut b| {
                    b.push(SOp::Wait);
                    b
                });
                let script = proptest::collection::vec(batch, 1..6).prop_map(|bs| bs.into_iter().flatten().collect::<Vec<_>>());
                let clearer = proptest::collection::vec(prop_oneof![1 => Just(SOp::Clear), 3 => (0u16..5000).prop_map(SOp::Spin)], 1..8);
                (proptest::collection::vec(script, nt..=nt), clearer).prop_map(move |(mut threads, clearer)| {
                    if with_clear {
                        threads.push(clearer);
                    }
                    StressCase {
                        kind,
                        exec,
                        cfg: SCfg { num_counters: 1000, max_cost: 1 << 40, buffer_size: bs, buffer_items: 64, metrics: false, ignore_internal_cost: true, cleanup_ms: 2, validator: Validator::Always, defaults: false, collide: false },
                        threads,
                        perturb,
                        drop_only: false,
                    }
                })
            })
            .boxed(),
        Kind::WaitRace => (
            exec_strategy(async_pct),
            proptest::sample::select(vec![1usize, 2, 3, 64]),
            1usize..=3,
            0usize..=2,
            // closers are drawn but excluded by the caller while the known finding stands
            0usize..=2,
            any::<u64>(),
        )
            .prop_flat_map(move |(exec, bs, waiters, clearers, closers, perturb)| {
                let wscript = proptest::collection::vec(
                    prop_oneof![
                        4 => Just(SOp::Wait),
                        // (TTL entries re-inserted and removed in place: the client side then works on
                        // the expiry index too, concurrently with what clear()/close() do to it)
                        4 => (0u32..5, 1i64..4, prop_oneof![Just(0u32), Just(3_600_000u32), Just(7_200_000u32)]).prop_map(|(k, cost, ttl_ms)| SOp::Insert { k, cost, ttl_ms }),
                        1 => (0u32..5).prop_map(|k| SOp::Remove { k }),
                        1 => (0u16..2000).prop_map(SOp::Spin),
                    ],
                    2..14,
                );
                let cscript = proptest::collection::vec(prop_oneof![2 => Just(SOp::Clear), 2 => (0u16..3000).prop_map(SOp::Spin), 1 => (0u32..5, 1i64..4, prop_oneof![Just(0u32), Just(3_600_000u32)]).prop_map(|(k, cost, ttl_ms)| SOp::Insert { k, cost, ttl_ms })], 1..8);
                let xscript = (proptest::collection::vec((0u16..4000).prop_map(SOp::Spin), 0..4)).prop_map(|mut v| {
                    v.push(SOp::Close);
                    v
                });
                (
                    proptest::collection::vec(wscript, waiters..=waiters),
                    proptest::collection::vec(cscript, clearers..=clearers),
                    proptest::collection::vec(xscript, closers..=closers),
                )
                    .prop_map(move |(mut threads, c, x)| {
                        threads.extend(c);
                        threads.extend(x);
                        StressCase {
                            kind,
                            exec,
                            cfg: SCfg { num_counters: 100, max_cost: 1 << 40, buffer_size: bs, buffer_items: 8, metrics: false, ignore_internal_cost: true, cleanup_ms: 500, validator: Validator::Always, defaults: false, collide: false },
                            threads,
                            perturb,
                            drop_only: false,
                        }
                    })
            })
            .boxed(),
        Kind::Close => (
            exec_strategy(async_pct),
            proptest::sample::select(vec![1usize, 2, 8, 64]),
            1usize..=4,
            0usize..=3,
            prop_oneof![4 => Just(false), 1 => Just(true)],
            any::<u64>(),
        )
            .prop_flat_map(move |(exec, bs, closers, racers, drop_only, perturb)| {
                let pre = proptest::collection::vec(sop_common(8, 10), 0..12);
                let storm = perturb % 3 == 0;
                let racer = if storm {
                    // insert storms: many accepted inserts land between close()'s clear and its stop
                    proptest::collection::vec(prop_oneof![6 => (0u32..40, 1i64..3).prop_map(|(k, cost)| SOp::Insert { k, cost, ttl_ms: 0 }), 1 => (0u16..600).prop_map(SOp::Spin)], 20..60).boxed()
                } else if perturb % 3 == 1 {
                    // lookup storms: batches of recorded lookups keep arriving at the policy worker
                    // while the close stops it
                    proptest::collection::vec(prop_oneof![10 => (0u32..8).prop_map(|k| SOp::Get { k }), 1 => (0u16..300).prop_map(SOp::Spin)], 40..140).boxed()
                } else {
                    proptest::collection::vec(
                        prop_oneof![8 => sop_common(8, 10), 1 => Just(SOp::Clear), 1 => Just(SOp::Len), 1 => (1i64..20).prop_map(|m| SOp::UpdateMax { m })],
                        1..14,
                    )
                    .boxed()
                };
                let closer = (proptest::collection::vec(prop_oneof![(0u16..4000).prop_map(SOp::Spin), sop_common(8, 10)], 0..4)).prop_map(move |mut v| {
                    v.push(if drop_only { SOp::DropHandle } else { SOp::Close });
                    v
                });
                (pre, proptest::collection::vec(closer, closers..=closers), proptest::collection::vec(racer, racers..=racers)).prop_map(move |(pre, mut cl, ra)| {
                    // the first closer also plays the pre-close history
                    if let Some(first) = cl.first_mut() {
                        let mut v = pre.clone();
                        v.append(first);
                        *first = v;
                    }
                    let mut threads = cl;
                    if !drop_only {
                        threads.extend(ra);
                    } else {
                        threads.extend(ra.into_iter().map(|mut r| {
                            r.push(SOp::DropHandle);
                            r
                        }));
                    }
                    StressCase {
                        kind,
                        exec,
                        cfg: SCfg { num_counters: 64, max_cost: 12, buffer_size: bs, buffer_items: 4, metrics: true, ignore_internal_cost: true, cleanup_ms: 20, validator: Validator::Always, defaults: false, collide: false },
                        threads,
                        perturb,
                        drop_only,
                    }
                })
            })
            .boxed(),
        Kind::Config => (
            exec_strategy(async_pct),
            prop_oneof![6 => 1usize..=70, 2 => proptest::sample::select(vec![100usize, 1000, 4096, 12345]), 1 => Just(0usize)],
            prop_oneof![8 => proptest::sample::select(vec![-5i64, -1, 1, 2, 10, 100, 1_000_000, i64::MAX]), 1 => Just(0i64)],
            prop_oneof![8 => proptest::sample::select(vec![1usize, 2, 3, 64, 32768]), 1 => Just(0usize)],
            proptest::sample::select(vec![0usize, 1, 2, 64]),
            any::<bool>(),
            any::<bool>(),
            prop_oneof![9 => proptest::sample::select(vec![1u64, 10, 500, 2000, 3_600_000]), 1 => Just(u64::MAX)],
            any::<u64>(),
        )
            .prop_flat_map(move |(exec, nc, mc, bs, bi, metrics, ign, cleanup_ms, perturb)| {
                // one case in five goes through the default builder (default key builder, hasher,
                // buffer sizes, cleanup interval); a zero buffer size cannot be expressed there
                let defaults = perturb % 5 == 0 && bs != 0;
                let cfg = SCfg { num_counters: nc, max_cost: mc, buffer_size: bs, buffer_items: bi, metrics, ignore_internal_cost: ign, cleanup_ms, validator: Validator::Always, defaults, collide: false };
                let internal = if ign { 0 } else { isz };
                let unit = if mc > 0 && mc < i64::MAX / 4 { (mc - internal).max(1) } else { 1 };
                // under a negative max_cost only items of negative cost can be admitted: the
                // workload then offers some
                let neg = if mc < 0 { mc - internal - 1 } else { 1 };
                let op = prop_oneof![
                    10 => (0u32..40, prop_oneof![Just(1i64), Just(0i64), Just(unit), Just((unit / 3).max(1)), Just(neg), Just(neg)], prop_oneof![3 => Just(0u32), 2 => 1u32..1500]).prop_map(|(k, cost, ttl_ms)| SOp::Insert { k, cost, ttl_ms }),
                    10 => (0u32..40).prop_map(|k| SOp::Get { k }),
                    2 => (0u32..40).prop_map(|k| SOp::GetMut { k }),
                    3 => (0u32..40).prop_map(|k| SOp::GetTtl { k }),
                    2 => (0u32..40, prop_oneof![Just(0u32), Just(1u32), 1u32..3000]).prop_map(|(k, ms)| SOp::GetHold { k, ms }),
                    3 => (0u32..40).prop_map(|k| SOp::Remove { k }),
                    2 => (0u32..40, 1i64..3).prop_map(|(k, cost)| SOp::Iip { k, cost }),
                    2 => (100u32..2500).prop_map(SOp::Advance),
                    1 => Just(SOp::Wait),
                    1 => (0u16..3000).prop_map(SOp::Spin),
                ];
                proptest::collection::vec(proptest::collection::vec(op, 10..80), 1..=2).prop_map(move |mut threads| {
                    // one case in four is a TTL churn: two or three clients re-insert the same three
                    // keys with TTLs that keep moving them between expiry seconds, while the
                    // processor files the admitted ones
                    if perturb % 4 == 2 {
                        while threads.len() < 2 + (perturb / 4 % 2) as usize {
                            let mut t = threads[0].clone();
                            t.reverse();
                            threads.push(t);
                        }
                        for (ti, t) in threads.iter_mut().enumerate() {
                            for (i, op) in t.iter_mut().enumerate() {
                                match op {
                                    SOp::Insert { k, ttl_ms, .. } => {
                                        *k %= 3;
                                        *ttl_ms = 1 + ((i as u32 * 769 + ti as u32 * 331 + *k * 97) % 2600);
                                    }
                                    SOp::Iip { k, .. } | SOp::Remove { k } | SOp::Get { k } | SOp::GetMut { k } | SOp::GetTtl { k } | SOp::GetHold { k, .. } => *k %= 3,
                                    _ => {}
                                }
                            }
                        }
                    }
                    StressCase { kind, exec, cfg: cfg.clone(), threads, perturb, drop_only: false }
                })
            })
            .boxed(),
        Kind::Reclaim => (
            exec_strategy(async_pct),
            proptest::sample::select(vec![5u64, 10, 20, 40]),
            proptest::collection::vec((0u32..6, 1i64..3, prop_oneof![Just(1u32), 1u32..2500]), 1..5),
            any::<bool>(),
            any::<u64>(),
        )
            .prop_map(move |(exec, cleanup_ms, ins, metrics, perturb)| StressCase {
                kind,
                exec,
                cfg: SCfg { num_counters: 100, max_cost: 1 << 40, buffer_size: 64, buffer_items: 8, metrics, ignore_internal_cost: true, cleanup_ms, validator: Validator::Always, defaults: false, collide: false },
                threads: vec![ins.into_iter().map(|(k, cost, ttl_ms)| SOp::Insert { k, cost, ttl_ms }).collect()],
                perturb,
                drop_only: false,
            })
            .boxed(),
        Kind::Validated => (
            exec_strategy(async_pct),
            3usize..=8,
            prop_oneof![3 => Just(1u32), 1 => Just(2u32)],
            any::<u64>(),
        )
            .prop_flat_map(move |(exec, nt, nkeys, perturb)| {
                let op = prop_oneof![
                    8 => (0..nkeys, 1i64..2000).prop_map(|(k, cost)| SOp::Insert { k, cost, ttl_ms: 0 }),
                    3 => (0..nkeys, 1i64..2000).prop_map(|(k, cost)| SOp::Iip { k, cost }),
                    4 => (0..nkeys).prop_map(|k| SOp::Get { k }),
                ];
                // every key is made resident first (one writer, then a barrier through wait())
                proptest::collection::vec(proptest::collection::vec(op, 100..400), nt..=nt).prop_map(move |mut threads| {
                    let mut warm: Vec<SOp> = (0..nkeys).map(|k| SOp::Insert { k, cost: 0, ttl_ms: 0 }).collect();
                    warm.push(SOp::Wait);
                    for t in threads.iter_mut() {
                        let mut w = warm.clone();
                        w.append(t);
                        *t = w;
                    }
                    StressCase {
                        kind,
                        exec,
                        cfg: SCfg { num_counters: 100, max_cost: 1 << 40, buffer_size: 4096, buffer_items: 8, metrics: false, ignore_internal_cost: true, cleanup_ms: 500, validator: Validator::TagGe, defaults: false, collide: false },
                        threads,
                        perturb,
                        drop_only: false,
                    }
                })
            })
            .boxed(),
        Kind::Lookups => (
            exec_strategy(async_pct),
            proptest::sample::select(vec![1usize, 2, 3, 8, 64]),
            2usize..=6,
            any::<u64>(),
        )
            .prop_flat_map(move |(exec, bi, nt, perturb)| {
                let reader = proptest::collection::vec(
                    prop_oneof![
                        12 => (0u32..40).prop_map(|k| SOp::Get { k }),
                        1 => (0u32..40).prop_map(|k| SOp::GetMut { k }),
                    ],
                    40..200,
                );
                let disturber = proptest::collection::vec(
                    prop_oneof![
                        3 => (100u32..160, 1i64..5).prop_map(|(k, cost)| SOp::Insert { k, cost, ttl_ms: 0 }),
                        3 => (50i64..60).prop_map(|m| SOp::UpdateMax { m }),
                        1 => (0u16..300).prop_map(SOp::Spin),
                    ],
                    40..300,
                );
                (proptest::collection::vec(reader, nt..=nt), proptest::collection::vec(disturber, 1..=2)).prop_map(move |(mut threads, d)| {
                    threads.extend(d);
                    StressCase {
                        kind,
                        exec,
                        // tight capacity for the disturbers' keys: every insert needs an admission
                        // decision under the policy lock; aging window far above the lookup count
                        cfg: SCfg { num_counters: 65536, max_cost: 55, buffer_size: 64, buffer_items: bi, metrics: true, ignore_internal_cost: true, cleanup_ms: 500, validator: Validator::Always, defaults: false, collide: false },
                        threads,
                        perturb,
                        drop_only: false,
                    }
                })
            })
            .boxed(),
        Kind::Invariants => (
            exec_strategy(async_pct),
            proptest::sample::select(vec![1usize, 2, 4, 16, 64]),
            2usize..=6,
            any::<bool>(),
            any::<bool>(),
            proptest::sample::select(vec![3i64, 6, 12, 40]),
            any::<u64>(),
            prop_oneof![3 => Just(0u32), 1 => Just(1u32), 1 => Just(3u32)],
        )
            .prop_flat_map(move |(exec, bs, nt, metrics, ign, units, perturb, clear_w)| {
                let internal = if ign { 0 } else { isz };
                let max_cost = units * (internal + 2);
                let op = prop_oneof![
                    20 => sop_common(10, max_cost - internal),
                    2 => (0u32..10, prop_oneof![24 => proptest::sample::select(vec![20u16, 100, 400, 1500]), 2 => Just(30_000u16), 2 => Just(u16::MAX)], any::<bool>()).prop_map(|(k, us, mutable)| SOp::GetLinger { k, us, mutable }),
                    clear_w.max(0) => Just(SOp::Clear),
                    1 => Just(SOp::Wait),
                    1 => (1i64..4).prop_map(move |u| SOp::UpdateMax { m: u * (internal + 2) * 3 }),
                    1 => (50u32..1500).prop_map(SOp::Advance),
                ];
                let op = if clear_w == 0 {
                    prop_oneof![
                        20 => sop_common(10, max_cost - internal),
                        1 => (0u32..10, proptest::sample::select(vec![20u16, 100, 400]), any::<bool>()).prop_map(|(k, us, mutable)| SOp::GetLinger { k, us, mutable }),
                        1 => Just(SOp::Wait),
                        1 => (1i64..4).prop_map(move |u| SOp::UpdateMax { m: u * (internal + 2) * 3 }),
                        1 => (50u32..1500).prop_map(SOp::Advance),
                    ]
                    .boxed()
                } else {
                    op.boxed()
                };
                // one case in six on colliding key pairs with a perturbing hasher (value checks only)
                let collide = perturb % 6 == 0;
                proptest::collection::vec(proptest::collection::vec(op, 5..50), nt..=nt).prop_map(move |mut threads| {
                    // one case in five is a "hot key" case: every thread works on the same two keys
                    // (writes, removes and lookups of one key from several clients racing the
                    // processor's handling of that key's buffered items)
                    let hot = perturb % 5 == 1;
                    // a third of the keys are moved to k + 256: another key of the same store shard
                    for t in threads.iter_mut() {
                        for (i, op) in t.iter_mut().enumerate() {
                            match op {
                                SOp::Insert { k, .. } | SOp::Iip { k, .. } | SOp::Remove { k } | SOp::Get { k } | SOp::GetMut { k } | SOp::GetTtl { k } | SOp::GetLinger { k, .. } => {
                                    if hot {
                                        *k %= 2;
                                    } else if (*k as usize * 7 + i) % 3 == 0 {
                                        *k += 256;
                                    }
                                }
                                _ => {}
                            }
                        }
                    }
                    // ... and in half of the hot-key cases two more clients do nothing but look keys
                    // up: the policy worker is kept busy applying batches (it holds the policy lock
                    // meanwhile) while the processor charges, re-prices and releases
                    if hot && perturb % 2 == 0 {
                        for r in 0..2u32 {
                            // (lookups and get_ttl of the hot keys and of their neighbours, alternating)
                            threads.push((0..240u32).map(|i| if i % 2 == 0 { SOp::Get { k: (i * 7 + r) % 10 } } else { SOp::GetTtl { k: (i / 2 + r) % 2 } }).collect());
                        }
                    }
                    threads
                }).prop_map(move |threads| StressCase {
                    kind,
                    exec,
                    cfg: SCfg { num_counters: 64, max_cost, buffer_size: bs, buffer_items: 3, metrics, ignore_internal_cost: ign, cleanup_ms: 5, validator: Validator::Always, defaults: false, collide },
                    threads,
                    perturb,
                    drop_only: false,
                })
            })
            .boxed(),
    }
}

// ------------------------------------------------------------------------------------------
// worker process protocol
// ------------------------------------------------------------------------------------------

/// `sv worker`: read one JSON case per line from stdin, answer one JSON result per line.
pub fn worker_main() -> i32 {
    use std::io::{BufRead, Write};
    let stdin = std::io::stdin();
    let stdout = std::io::stdout();
    for line in stdin.lock().lines() {
        let line = match line {
            Ok(l) => l,
            Err(_) => break,
        };
        if line.trim().is_empty() {
            continue;
        }
        let case: StressCase = match serde_json::from_str(&line) {
            Ok(c) => c,
            Err(e) => {
                let r = SResult { status: "harness".into(), msg: format!("bad case: {}", e), ..Default::default() };
                let mut o = stdout.lock();
                let _ = writeln!(o, "{}", serde_json::to_string(&r).unwrap());
                let _ = o.flush();
                continue;
            }
        };
        let r = run_stress_case(&case);
        let stuck = r.status == "hang" || r.status == "busy";
        {
            let mut o = stdout.lock();
            let _ = writeln!(o, "{}", serde_json::to_string(&r).unwrap());
            let _ = o.flush();
        }
        if stuck {
            // blocked threads are still around: this process is spent
            std::process::exit(3);
        }
    }
    0
}

/// Reclaim kind: entries with TTLs are inserted, the process-wide virtual clock is moved past their
/// deadlines and bucket boundaries, and client traffic keeps flowing (gaps far below the cleanup
/// interval). The periodic cleanup must reclaim them although the processor is never idle.
fn run_reclaim(case: &StressCase, api: Box<dyn Api>, cb: &RecTs) -> SResult {
    let tick = Duration::from_millis(case.cfg.cleanup_ms.max(1));
    let mut serial = 0u32;
    let mut expiring: Vec<Val> = Vec::new();
    let mut written_cost: HashMap<Val, i64> = HashMap::new();
    // phase 1: the entries that will expire (script of thread 0: Insert ops with ttl)
    for op in case.threads.first().map(|t| t.as_slice()).unwrap_or(&[]) {
        if let SOp::Insert { k, cost, ttl_ms } = op {
            serial += 1;
            let v = Val { key: *k, serial, tag: 1 };
            if api.insert(*k as u64, v, *cost, Duration::from_millis((*ttl_ms).max(1) as u64)) == Ok(true) {
                expiring.push(v);
            }
            written_cost.insert(v, *cost);
        }
    }
    let mut ok = false;
    for _ in 0..2000 {
        if api.wait().is_ok() {
            ok = true;
            break;
        }
        std::thread::sleep(Duration::from_micros(200));
    }
    if !ok {
        return SResult { status: "busy".into(), msg: "wait() never succeeded during set-up".into(), ..Default::default() };
    }
    let resident: Vec<Val> = expiring.iter().copied().filter(|v| api.get(v.key as u64) == Some(*v)).collect();
    if resident.is_empty() {
        let mut r = SResult::ok();
        r.classes.push("nothing_admitted".into());
        return r;
    }
    // phase 2: every deadline and its bucket boundary is passed (virtual time)
    clock::advance_global(5_000 * 1_000_000);
    // phase 3: traffic on other keys with gaps of ~tick/8, until everything is reclaimed
    let start = Instant::now();
    let budget = Duration::from_millis(3000).max(tick * 60);
    let gap = tick / 8;
    let mut i = 0u32;
    let mut reclaimed_after: Option<Duration> = None;
    // flood mode: two writers keep the insert buffer non-empty at every tick instant (items larger
    // than max_cost: rejected by the policy, so nothing accumulates)
    let flood = case.perturb % 3 == 1;
    // guard mode: a client keeps a write guard (get_mut) on a neighbouring key of an expiring
    // entry's shard alive for ~300 us at a time, so that the sweep runs into a held shard lock
    let guard = case.perturb % 3 == 2;
    // (not on the current-thread executor: the policy task's loop never yields while batches keep
    // arriving, so a lookup flood from other OS threads starves the cache processor sharing its
    // thread - observation D16; C05 does not quantify over lookup floods)
    let readers = case.perturb % 3 == 0 && (case.perturb / 3) % 2 == 0 && !matches!(case.exec, Exec::TokioCt);
    let stop = AtomicBool::new(false);
    let guard_key = 256 * 3 + (resident[0].key % 256);
    if guard {
        serial += 1;
        let _ = api.insert(guard_key as u64, Val { key: guard_key, serial, tag: 1 }, 1, Duration::ZERO);
        let _ = api.wait();
    }
    std::thread::scope(|sc| {
    if guard {
        let api2 = api.dup();
        let stop = &stop;
        sc.spawn(move || {
            while !stop.load(Ordering::Relaxed) {
                let _ = api2.get_linger(guard_key as u64, 300, true);
            }
        });
    }
    if readers {
        // lookup storm: the policy worker is busy applying batches of lookups (it holds the
        // policy lock meanwhile) while the sweep reclaims
        for w in 0..2u32 {
            let api2 = api.dup();
            let stop = &stop;
            sc.spawn(move || {
                let mut j = 0u32;
                while !stop.load(Ordering::Relaxed) {
                    // bursts of lookups with short pauses: the policy worker is busy often, the
                    // machine is not saturated (16 such cases run side by side)
                    for _ in 0..16 {
                        j = j.wrapping_add(1);
                        let _ = api2.get((256 * (60 + w) + (j % 50)) as u64);
                    }
                    std::thread::sleep(Duration::from_micros(40));
                }
            });
        }
    }
    if flood {
        for w in 0..2u32 {
            let api2 = api.dup();
            let stop = &stop;
            sc.spawn(move || {
                let mut j = 0u32;
                while !stop.load(Ordering::Relaxed) {
                    j += 1;
                    // keys of the shards the expiring entries live in (index % 256 in 0..6)
                    let k = 256 * (80 + w) + (j % 6);
                    let v = Val { key: k, serial: 1_000_000 + w * 10_000_000 + j, tag: 1 };
                    let _ = api2.insert(k as u64, v, i64::MAX / 2, Duration::ZERO);
                }
            });
        }
    }
    while start.elapsed() < budget {
        i += 1;
        serial += 1;
        // traffic on other keys of the same shards
        let k = 256 * 40 + (i % 7);
        let v = Val { key: k, serial, tag: 1 };
        match i % 4 {
            0 => {
                let _ = api.insert(k as u64, v, 1, Duration::ZERO);
            }
            1 => {
                let _ = api.get(k as u64);
            }
            2 => {
                let _ = api.remove(k as u64);
            }
            _ => {
                let _ = api.wait();
            }
        }
        let t0 = Instant::now();
        while t0.elapsed() < gap {
            std::hint::spin_loop();
        }
        if i % 8 == 0 {
            let log = cb.log.lock();
            let all = resident.iter().all(|v| log.iter().any(|(_, e)| matches!(e, Ev::Evict(x, ..) if x == v)));
            drop(log);
            if all {
                reclaimed_after = Some(start.elapsed());
                break;
            }
        }
    }
    stop.store(true, Ordering::Relaxed);
    });
    match reclaimed_after {
        Some(d) => {
            // exactly once each, and no longer counted
            let log = cb.log.lock();
            for v in resident.iter() {
                let n = log.iter().filter(|(_, e)| e.val() == Some(*v)).count();
                if n != 1 {
                    return SResult::violation(&["C05", "C08"], "reclaim_callback_count", format!("expired value {} was handed to callbacks {} times", v, n));
                }
            }
            // ... with its charged cost: each of these values was the last one written under its
            // key, with everything applied (wait() Ok) before the clock moved
            if !case.cfg.collide {
                let internal = if case.cfg.ignore_internal_cost { 0 } else { crate::gen::item_size() };
                for v in resident.iter() {
                    // (two inserts of one key issued back to back are two New items: the second is
                    // refused but re-prices the charge - so: the charge of *some* write of the key)
                    let mut want: Vec<i64> = written_cost.iter().filter(|(o, _)| o.key == v.key).map(|(o, c)| (if *c == 0 { o.tag as i64 } else { *c }) + internal).collect();
                    want.sort_unstable();
                    want.dedup();
                    let got = log.iter().find_map(|(_, e)| match e {
                        Ev::Evict(x, _, _, cost, ..) if x == v => Some(*cost),
                        _ => None,
                    });
                    if let Some(got) = got {
                        if !want.contains(&got) {
                            return SResult::violation(&["C05", "C16"], "reclaim_callback_cost", format!("expired value {} was handed to on_evict with cost {}; the writes of its key were charged {:?}", v, got, want));
                        }
                    }
                }
            }
            drop(log);
            let snap = api.snapshot();
            for v in resident.iter() {
                if snap.entries.iter().any(|e| e.value == *v) || snap.costs.iter().any(|(k, _)| *k == v.key as u64) {
                    return SResult::violation(&["C05"], "reclaim_incomplete", format!("expired value {} was reported evicted but is still resident or charged", v));
                }
            }
            let mut r = SResult::ok();
            r.nontrivial = true;
            r.classes.push(format!("reclaimed_within_{}_ticks", (d.as_millis() as u64 / case.cfg.cleanup_ms.max(1)).min(99)));
            r
        }
        None => SResult::violation(
            &["C05"],
            "not_reclaimed_under_traffic",
            format!(
                "{} expired entries (deadlines and bucket boundaries passed {} ms of wall-clock ago) were not reclaimed although the cleanup interval is {} ms; client traffic kept flowing with gaps of {:?}{} ({:?})",
                resident.len(),
                start.elapsed().as_millis(),
                case.cfg.cleanup_ms,
                gap,
                if flood { " plus two writers flooding the insert buffer" } else if guard { " plus a client holding a write guard on a neighbouring key of the shard" } else { "" },
                case.exec
            ),
        ),
    }
}

/// Validated kind: threads write values with generated tags to a few shared keys (ample capacity,
/// no TTL, no remove, validator "new.tag >= prev.tag"). A replacement the validator would veto
/// must never happen: no reader may see the tag of a key decrease, and after quiescence every key
/// holds the largest tag any accepted write carried.
fn run_validated(case: &StressCase, api: Box<dyn Api>) -> SResult {
    let n = case.threads.len();
    let progress = Progress::new(n + 1);
    let serial = AtomicU32::new(0);
    let maxtag: Mutex<HashMap<u32, u32>> = Mutex::new(HashMap::new());
    let viol: Mutex<Option<SResult>> = Mutex::new(None);
    let barrier = Barrier::new(n);
    let api: Arc<Box<dyn Api>> = Arc::new(api);
    let mk_hang = |ev: &str, _b: &[usize]| -> SResult {
        let mut r = SResult::violation(&["C12"], "call_blocked", format!("HANG {}", ev));
        r.status = "hang".into();
        r
    };
    watch(&progress, Duration::from_millis(1500), &mk_hang, || {
        std::thread::scope(|s| {
            for (t, script) in case.threads.iter().enumerate() {
                let api = api.dup();
                let (serial, maxtag, viol, barrier, progress) = (&serial, &maxtag, &viol, &barrier, &progress);
                s.spawn(move || {
                    progress.register(t);
                    barrier.wait();
                    let mut seen: HashMap<u32, u32> = HashMap::new();
                    for op in script {
                        match op {
                            SOp::Insert { k, cost, .. } | SOp::Iip { k, cost } => {
                                let tag = (*cost).clamp(0, 1_000_000) as u32;
                                let sn = serial.fetch_add(1, Ordering::SeqCst) + 1;
                                let v = Val { key: *k, serial: sn, tag };
                                progress.enter(t, 1);
                                let r = if matches!(op, SOp::Iip { .. }) { api.iip(*k as u64, v, 1) } else { api.insert(*k as u64, v, 1, Duration::ZERO) };
                                progress.leave(t);
                                if r == Ok(true) {
                                    let mut m = maxtag.lock();
                                    let e = m.entry(*k).or_insert(0);
                                    if tag > *e {
                                        *e = tag;
                                    }
                                }
                            }
                            SOp::Get { k } | SOp::GetMut { k } => {
                                progress.enter(t, 4);
                                let got = api.get(*k as u64);
                                progress.leave(t);
                                if let Some(v) = got {
                                    let last = seen.entry(*k).or_insert(0);
                                    if v.tag < *last {
                                        *viol.lock() = Some(SResult::violation(
                                            &["C09", "C02"],
                                            "vetoed_replacement_happened",
                                            format!("thread {} read tag {} for key {} after having read tag {}: under the validator new.tag >= prev.tag the resident tag can never decrease (no removes, no TTL, ample capacity)", t, v.tag, k, *last),
                                        ));
                                    }
                                    *last = v.tag;
                                }
                            }
                            SOp::Spin(c) => {
                                for _ in 0..*c {
                                    std::hint::spin_loop();
                                }
                            }
                            SOp::Wait => {
                                progress.enter(t, 6);
                                let _ = api.wait();
                                progress.leave(t);
                            }
                            _ => {}
                        }
                    }
                    progress.finish(t);
                });
            }
        })
    });
    if let Some(v) = viol.lock().take() {
        return v;
    }
    let ok = watch(&progress, Duration::from_millis(1500), &mk_hang, || {
        progress.register(n);
        for _ in 0..5000 {
            progress.enter(n, 6);
            let r = api.wait();
            progress.leave(n);
            if r.is_ok() {
                return true;
            }
            std::thread::sleep(Duration::from_micros(100));
        }
        false
    });
    if !ok {
        return SResult::ok();
    }
    // final: each key holds the largest accepted tag, provided the key is resident at all (a key
    // whose writes were all dropped for lack of buffer space may be absent)
    let m = maxtag.lock().clone();
    for (k, mx) in m.iter() {
        if let Some(v) = api.get(*k as u64) {
            if v.tag < *mx {
                // an accepted insert of a not-yet-resident key can still be refused later as a
                // duplicate of an earlier buffered one: only in-place updates are binding, and
                // those exist only once the key is resident. Values above the resident tag that
                // were accepted while the key was already resident cannot have been vetoed.
                return SResult::violation(
                    &["C09", "C02"],
                    "vetoed_replacement_happened",
                    format!("after quiescence key {} holds tag {} although an insert carrying tag {} was accepted (validator new.tag >= prev.tag; no removes, no TTL, ample capacity)", k, v.tag, mx),
                );
            }
        }
    }
    let mut r = SResult::ok();
    r.nontrivial = n >= 2;
    r
}

/// Lookups kind: 2-6 threads look up 40 keys (few times each, so estimates stay below saturation),
/// other threads keep the policy lock busy (inserts that need admission decisions, max_cost
/// updates). No clear, no close, aging window far larger than the number of lookups.
/// At quiescence: every flushed batch is accounted exactly once (kept + dropped ==
/// b * floor(lookups / b)), hits + misses == lookups, and - if nothing was dropped - the estimates
/// reflect the kept lookups (at most b-1 lookups may still sit in the ring).
fn run_lookups(case: &StressCase, api: Box<dyn Api>) -> SResult {
    let n = case.threads.len();
    let progress = Progress::new(n + 1);
    let barrier = Barrier::new(n);
    let counts: Mutex<HashMap<u32, u64>> = Mutex::new(HashMap::new());
    let total = AtomicU64::new(0);
    let api: Arc<Box<dyn Api>> = Arc::new(api);
    let serial = AtomicU32::new(0);
    let mk_hang = |ev: &str, _b: &[usize]| -> SResult {
        let mut r = SResult::violation(&["C12"], "call_blocked", format!("HANG {}", ev));
        r.status = "hang".into();
        r
    };
    watch(&progress, Duration::from_millis(1500), &mk_hang, || {
        std::thread::scope(|s| {
            for (t, script) in case.threads.iter().enumerate() {
                let api = api.dup();
                let (counts, total, barrier, progress, serial) = (&counts, &total, &barrier, &progress, &serial);
                s.spawn(move || {
                    progress.register(t);
                    barrier.wait();
                    let mut local: HashMap<u32, u64> = HashMap::new();
                    for op in script {
                        match op {
                            SOp::Get { k } => {
                                progress.enter(t, 4);
                                let _ = api.get(*k as u64);
                                progress.leave(t);
                                *local.entry(*k).or_insert(0) += 1;
                            }
                            SOp::GetMut { k } => {
                                progress.enter(t, 5);
                                let _ = api.get_mut(*k as u64);
                                progress.leave(t);
                                *local.entry(*k).or_insert(0) += 1;
                            }
                            SOp::Insert { k, cost, .. } => {
                                let sn = serial.fetch_add(1, Ordering::SeqCst) + 1;
                                progress.enter(t, 1);
                                let _ = api.insert(*k as u64, Val { key: *k, serial: sn, tag: 1 }, *cost, Duration::ZERO);
                                progress.leave(t);
                            }
                            SOp::UpdateMax { m } => {
                                api.update_max_cost(*m);
                                let _ = api.max_cost();
                            }
                            SOp::Spin(c) => {
                                for _ in 0..*c {
                                    std::hint::spin_loop();
                                }
                            }
                            _ => {}
                        }
                    }
                    let mut g = counts.lock();
                    for (k, c) in local {
                        *g.entry(k).or_insert(0) += c;
                        total.fetch_add(c, Ordering::SeqCst);
                    }
                    progress.finish(t);
                });
            }
        })
    });
    let total = total.load(Ordering::SeqCst);
    let b = case.cfg.buffer_items.max(1) as u64;
    let want_flushed = b * (total / b);
    // let the policy worker drain: poll until the accounting and the estimates settle
    let counts = counts.lock().clone();
    let deadline = Instant::now() + Duration::from_millis(2500);
    let mut last = String::new();
    loop {
        let mv = match api.metrics() {
            Some(m) => m,
            None => return SResult::ok(),
        };
        let mut problem: Option<(&'static str, &'static [&'static str], String)> = None;
        if mv.hits + mv.misses != total {
            problem = Some(("metrics_lookups", &["C17"], format!("hits {} + misses {} != lookups made {}", mv.hits, mv.misses, total)));
        } else if mv.gets_kept + mv.gets_dropped != want_flushed {
            problem = Some((
                "ring_accounting",
                &["C15", "C17"],
                format!("{} lookups with buffer_items {}: kept {} + dropped {} != {} (every flushed batch accounted exactly once)", total, case.cfg.buffer_items, mv.gets_kept, mv.gets_dropped, want_flushed),
            ));
        } else if mv.gets_dropped == 0 {
            let mut deficit = 0i64;
            let mut worst = (0u32, 0u64, 0i64);
            for (k, c) in counts.iter() {
                let est = api.estimate(*k as u64);
                let want = (*c).min(16) as i64;
                if est < want {
                    deficit += want - est;
                    if want - est > worst.1 as i64 - worst.2 {
                        worst = (*k, *c, est);
                    }
                }
            }
            if deficit > (b as i64 - 1) {
                problem = Some((
                    "estimate_ge_recorded",
                    &["C15", "C13"],
                    format!("{} lookups, all batches kept (none dropped), buffer_items {}: the estimates fall short of the recorded lookups by {} in total (at most {} may still sit in the ring), e.g. key {} looked up {} times estimates {}", total, case.cfg.buffer_items, deficit, b - 1, worst.0, worst.1, worst.2),
                ));
            }
        }
        match problem {
            None => break,
            Some((pred, props, msg)) => {
                last = msg.clone();
                if Instant::now() > deadline {
                    let _ = last;
                    return SResult::violation(props, pred, msg);
                }
                std::thread::sleep(Duration::from_millis(5));
            }
        }
    }
    let mut r = SResult::ok();
    r.nontrivial = n >= 2 && total >= b;
    if api.metrics().map(|m| m.gets_dropped > 0).unwrap_or(false) {
        r.classes.push("batch_dropped".into());
    }
    r
}
