//! Per-property wiring of the lock-step engine: profile (generator), non-triviality rule,
//! budgets; driver, shrinking, replay, evidence.
use crate::common::*;
use crate::gen::*;
use crate::lockstep::*;
use serde_json::json;
use std::panic::{catch_unwind, AssertUnwindSafe};

pub struct LsCheck {
    pub id: &'static str,
    pub profile: Profile,
    pub quick: u32,
    pub thorough: u32,
    pub rule: &'static str,
    pub nontrivial: fn(&Feats) -> bool,
    pub assumptions: &'static [&'static str],
    /// template cases mixed into the generated ones: (weight per 5000, generator)
    pub scenarios: Vec<(u32, fn(&Profile) -> proptest::strategy::BoxedStrategy<Case>)>,
}

fn w(f: impl FnOnce(&mut Weights)) -> Weights {
    let mut w = Weights::default();
    f(&mut w);
    w
}

const ALL_VALIDATORS: &[Validator] = &[
    Validator::Always,
    Validator::Never,
    Validator::TagGe,
    Validator::TagEven,
    Validator::TagDiffers,
];

pub fn ls_check(id: &str) -> Option<LsCheck> {
    let d = Profile::default();
    Some(match id {
        "C01" => LsCheck {
            id: "C01",
            profile: Profile {
                name: "cost-bound",
                cap: Cap::Tight,
                interpose: 4,
                negative_max: true,
                ttl_pct: 20,
                w: w(|w| {
                    w.umc = 7;
                    w.insert = 40;
                    w.get = 6;
                    w.clear = 1;
                }),
                len: (8, 70),
                ..d
            },
            quick: 24_000,
            thorough: 400_000,
            rule: "lock-step cases (config x op sequence) on a parked cache with tight max_cost; non-trivial = the history contains an admission that needed >=1 eviction, or an admission after in-place updates/lowered max_cost had pushed the total over max_cost; distinct by hash of the whole case",
            nontrivial: |f| f.admissions_with_eviction > 0 || f.over_budget_then_admit > 0 || f.max_cost_lowered_then_admit > 0,
            assumptions: &["non-negative costs; cost + internal overhead does not overflow i64", "single-threaded interleavings of client ops with the processor's ready arms (real-thread schedules: stress engine)"],
            scenarios: vec![],
        },
        "C02" => LsCheck {
            id: "C02",
            profile: Profile {
                name: "current-value",
                interpose: 4,
                patience_per_10k: 12,
                negative_costs: true,
                w: w(|w| {
                    w.remove = 14;
                    w.clear = 3;
                    w.getmut = 6;
                    w.get = 22;
                }),
                getmut_write: true,
                validators: vec![Validator::Always, Validator::Always, Validator::TagGe],
                ..d
            },
            quick: 24_000,
            thorough: 400_000,
            rule: "lock-step cases with removes, clears, evictions, expiries and in-place get_mut writes; non-trivial = a lookup of a key that was removed/evicted/expired/cleared earlier and written again; distinct by case hash",
            nontrivial: |f| f.lookup_after_rewrite > 0,
            assumptions: &["'had taken effect' is read as: the remove's Delete item / the clear was applied by the processor"],
            scenarios: vec![(500, sweep_race_scenario)],
        },
        "C03" => LsCheck {
            id: "C03",
            profile: Profile {
                name: "ttl-visibility",
                cap: Cap::Mixed,
                validators: vec![Validator::Always, Validator::Always, Validator::Always, Validator::TagGe, Validator::TagEven],
                modes: vec![Mode::Quiescent],
                ttl_pct: 75,
                buffer_sizes: vec![64],
                w: w(|w| {
                    w.get = 22;
                    w.getttl = 12;
                    w.gethold = 8;
                    w.getmut = 6;
                    w.adv = 26;
                    w.tick = 10;
                    w.remove = 4;
                    w.clear = 1;
                    w.umc = 0;
                    w.wait = 1;
                }),
                ..d
            },
            quick: 24_000,
            thorough: 400_000,
            rule: "quiescent lock-step cases under a virtual clock, ample capacity in a third of the cases and tight capacity (evictions) in the rest, TTLs from 1ns to 1h, advances aimed at second boundaries and deadlines +-1ns; non-trivial = a lookup within 1s of the key's deadline or within 1ns of a second boundary, or a TTL<->no-TTL re-insert followed by a cleanup tick; distinct by case hash",
            nontrivial: |f| f.ttl_boundary_lookups > 0 || f.ttl_switch_then_tick > 0,
            assumptions: &["time is the virtual clock served to SystemTime::now() (monotone)"],
            scenarios: vec![(1000, clear_reuse_scenario), (400, sweep_race_scenario)],
        },
        "C04" => LsCheck {
            id: "C04",
            profile: Profile {
                name: "exact-map",
                cap: Cap::Mixed,
                validators: vec![Validator::Always, Validator::Always, Validator::Always, Validator::TagGe, Validator::TagEven],
                modes: vec![Mode::Quiescent],
                ttl_pct: 50,
                buffer_sizes: vec![64],
                w: w(|w| {
                    w.adv = 20;
                    w.tick = 12;
                    w.clear = 3;
                    w.umc = 0;
                }),
                ..d
            },
            quick: 24_000,
            thorough: 400_000,
            rule: "quiescent lock-step cases with a 64-slot buffer (never full), max_cost 2^40 in a third of the cases and a tight max_cost in the rest (what the model admits with room must then stay; once the combined cost has exceeded max_cost the premise is gone and admissions are no longer judged for this property); a fifth of the cases under a vetoing update validator; every key of the domain is looked up at the end; non-trivial = TTL<->no-TTL re-insert followed by a tick, or a TTL key re-used after clear(), or an update of a key that shares its expiry second with another key; distinct by case hash",
            nontrivial: |f| f.ttl_switch_then_tick > 0 || f.key_reused_after_clear > 0 || f.shared_bucket_updates > 0,
            assumptions: &["quiescent histories only (the property has no schedule quantifier)"],
            scenarios: vec![(1000, clear_reuse_scenario)],
        },
        "C05" => LsCheck {
            id: "C05",
            profile: Profile {
                name: "reclaim",
                cap: Cap::Mixed,
                validators: vec![Validator::Always, Validator::Always, Validator::Always, Validator::TagGe, Validator::TagEven],
                modes: vec![Mode::Quiescent, Mode::Quiescent, Mode::Schedule],
                ttl_pct: 85,
                periodic: true,
                big_advances: false,
                buffer_sizes: vec![64],
                w: w(|w| {
                    w.adv = 30;
                    w.bulkwide = 1;
                    w.tick = 0;
                    w.clear = 1;
                    w.umc = 0;
                    w.remove = 8;
                    w.get = 8;
                }),
                ..d
            },
            quick: 20_000,
            thorough: 300_000,
            rule: "lock-step cases (two thirds quiescent, one third with the processor arms firing only where generated, so that ticks also fall on a non-empty insert buffer) with a periodic cleanup (interval 100ms..3s, generated phase) fired on the virtual time line; non-trivial = something was reclaimed and (an update of a key sharing its expiry second with another, or interval > 1s, or a deadline within 1ms of a second boundary); distinct by case hash",
            nontrivial: |f| f.reclaimed > 0 && (f.shared_bucket_updates > 0 || f.long_tick_period || f.boundary_deadlines > 0),
            assumptions: &["'bounded delay' is checked as: gone after the first periodic tick at or after deadline + 1s"],
            scenarios: vec![(500, sweep_race_scenario)],
        },
        "C06" => LsCheck {
            id: "C06",
            profile: Profile {
                name: "store-policy-agreement",
                cap: Cap::Tight,
                interpose: 14,
                modes: vec![Mode::Schedule],
                ttl_pct: 30,
                w: w(|w| {
                    w.remove = 14;
                    w.clear = 4;
                    w.tick = 8;
                }),
                ..d
            },
            quick: 24_000,
            thorough: 400_000,
            rule: "schedule-mode lock-step cases (processor arms fire only where generated); non-trivial = a remove, update or clear() hit a key with work still buffered; distinct by case hash",
            nontrivial: |f| f.removes_inflight > 0 || f.updates_inflight > 0 || f.clears_with_pending > 0 || f.interposed_same_key > 0,
            assumptions: &["keys have distinct index hashes", "operations that returned Err void the case from that point (precondition of the property)"],
            scenarios: vec![(500, sweep_race_scenario)],
        },
        "C07" => LsCheck {
            id: "C07",
            profile: Profile {
                name: "admission-in-the-cache",
                cap: Cap::Tight,
                modes: vec![Mode::Quiescent, Mode::Quiescent, Mode::Schedule],
                buffer_sizes: vec![1, 2, 4, 64, 64],
                ttl_pct: 30,
                periodic_pct: 40,
                big_advances: false,
                buffer_items: vec![0, 1, 2, 3],
                num_counters: vec![16, 64],
                w: w(|w| {
                    w.insert = 36;
                    w.get = 30;
                    w.policy = 10;
                    w.remove = 7;
                    w.clear = 1;
                    w.umc = 2;
                    w.adv = 18;
                    w.tick = 8;
                }),
                len: (12, 80),
                ..d
            },
            quick: 24_000,
            thorough: 300_000,
            rule: "lock-step cases (a third in schedule mode, insert buffers of 1, 2, 4 and 64 slots, so that removes and updates also meet a full buffer) with tight capacity, mixed costs and popularity shaped by lookups through the real ring buffer and the parked policy worker: what the policy decides must be carried out by the processor (room => admitted and nothing evicted; every victim leaves the store and reaches on_evict, also when the newcomer is rejected in a later round; a rejected newcomer reaches on_reject); non-trivial = an admission with eviction or an evict-then-reject decision; distinct by case hash",
            nontrivial: |f| f.admissions_with_eviction > 0 || f.evict_then_reject > 0,
            assumptions: &["which candidates are sampled and how ties break is left to the implementation (the rule itself is checked at policy level by the component engine)"],
            scenarios: vec![],
        },
        "C08" => LsCheck {
            id: "C08",
            profile: Profile {
                name: "one-callback",
                cap: Cap::Tight,
                interpose: 6,
                ttl_pct: 30,
                validators: vec![Validator::Always, Validator::Always, Validator::TagGe, Validator::Never, Validator::TagEven],
                w: w(|w| {
                    w.remove = 12;
                    w.getmut = 0;
                    w.clear = 2;
                }),
                ..d
            },
            quick: 24_000,
            thorough: 400_000,
            rule: "lock-step cases with uniquely tagged values and a recording callback; non-trivial = >=1 eviction or rejection and >=1 update/remove of a key with work in flight; distinct by case hash",
            nontrivial: |f| (f.admissions_with_eviction + f.pop_rejections + f.dup_new_rejections + f.oversize_rejections) > 0 && (f.updates_inflight + f.removes_inflight) > 0,
            assumptions: &["get_mut writes are excluded (they overwrite a value in place)", "values accepted before a clear() may be dropped without callback, never reported twice"],
            scenarios: vec![(500, sweep_race_scenario)],
        },
        "C09" => LsCheck {
            id: "C09",
            profile: Profile {
                name: "conditional-writes",
                periodic_pct: 30,
                validators: ALL_VALIDATORS.to_vec(),
                ttl_pct: 45,
                w: w(|w| {
                    w.iip = 18;
                    w.getttl = 8;
                    w.remove = 10;
                }),
                ..d
            },
            quick: 24_000,
            thorough: 400_000,
            rule: "lock-step cases over a family of validators (always, never, tag>=, even tag, tag differs); non-trivial = insert_if_present on a key that is absent because it was removed/expired/evicted or is only buffered, or a vetoed insert involving a TTL; distinct by case hash",
            nontrivial: |f| f.iip_absent_interesting > 0 || f.vetoes_ttl > 0,
            assumptions: &["an expired but not yet reclaimed entry counts as physically resident (both outcomes are accepted by the property; the model follows the implementation)"],
            scenarios: vec![(700, collide_veto_scenario)],
        },
        "C10" => LsCheck {
            id: "C10",
            profile: Profile {
                name: "wait-barrier",
                modes: vec![Mode::Schedule],
                ttl_pct: 15,
                w: w(|w| {
                    w.wait = 16;
                    w.remove = 12;
                    w.clear = 3;
                    w.proc_insert = 8;
                    w.drain = 1;
                }),
                ..d
            },
            quick: 6_000,
            thorough: 150_000,
            rule: "schedule-mode lock-step cases in which the real wait() runs (sync: on a helper thread while the interpreter steps the parked processor; async: polled) with work still buffered; wait() Ok must imply that every earlier item was applied (the model then predicts every later lookup and charge exactly); non-trivial = a wait() issued with >=1 item pending; distinct by case hash",
            nontrivial: |f| f.waits_with_pending > 0,
            assumptions: &["one client thread in this engine; races with clear()/close(): stress engine"],
            scenarios: vec![],
        },
        "C11" => LsCheck {
            id: "C11",
            profile: Profile {
                name: "clear",
                interpose: 10,
                patience_per_10k: 12,
                interpose_clear_only: true,
                keys: (2, 4),
                ttl_pct: 50,
                metrics: Some(true),
                w: w(|w| {
                    w.clear = 9;
                    w.tick = 8;
                    w.adv = 12;
                }),
                ..d
            },
            quick: 24_000,
            thorough: 400_000,
            rule: "lock-step cases with frequent clear(); non-trivial = clear() called with >=1 item still buffered, or a TTL key re-used after the clear; distinct by case hash",
            nontrivial: |f| f.clears_with_pending > 0 || f.ttl_key_reused_after_clear > 0 || f.interposed > 0,
            assumptions: &["one client thread; concurrent clients: stress engine"],
            scenarios: vec![(1000, clear_reuse_scenario), (3, big_buffer_clear_scenario)],
        },
        "C13" => LsCheck {
            id: "C13",
            profile: Profile {
                defaults_pct: 0,
                name: "estimator-in-the-cache",
                cap: Cap::Mixed,
                ttl_pct: 10,
                metrics: Some(true),
                num_counters: vec![2, 3, 5, 8, 16, 64],
                async_pct: 35,
                w: w(|w| {
                    w.get = 45;
                    w.getwide = 5;
                    w.getmut = 8;
                    w.policy = 9;
                    w.insert = 14;
                    w.clear = 1;
                }),
                len: (10, 90),
                ..d
            },
            quick: 12_000,
            thorough: 200_000,
            rule: "lock-step cases with a parked policy worker (sync and async): lookups go through the real ring buffer and worker into the cache's own estimator; every key's estimate covers what was recorded since the last aging reset and the aging window advances by one per recorded access; non-trivial = an aging reset happened or a batch contained a missed key; distinct by case hash",
            nontrivial: |f| f.window_resets > 0 || f.batches_with_miss > 0,
            assumptions: &["sync: a batch is dropped iff 3 batches are already queued; async: never while open"],
            scenarios: vec![],
        },
        "C14" => LsCheck {
            id: "C14",
            profile: Profile {
                defaults_pct: 0,
                name: "doorkeeper-in-the-cache",
                cap: Cap::Mixed,
                ttl_pct: 10,
                metrics: Some(true),
                num_counters: vec![2, 3, 5, 8, 16, 64],
                async_pct: 35,
                w: w(|w| {
                    w.get = 45;
                    w.getwide = 5;
                    w.getmut = 8;
                    w.policy = 9;
                    w.insert = 14;
                    w.clear = 1;
                }),
                len: (10, 90),
                ..d
            },
            quick: 12_000,
            thorough: 200_000,
            rule: "lock-step cases with a parked policy worker (sync and async): after every applied batch, every index recorded in the current window is reported by the cache's doorkeeper, and of 40 never-recorded hashes fewer than 10 are; non-trivial = an aging reset happened or a batch contained a missed key; distinct by case hash",
            nontrivial: |f| f.window_resets > 0 || f.batches_with_miss > 0,
            assumptions: &["sync: a batch is dropped iff 3 batches are already queued; async: never while open"],
            scenarios: vec![],
        },
        "C15" => LsCheck {
            id: "C15",
            profile: Profile {
                name: "lookup-accounting",
                cap: Cap::Mixed,
                ttl_pct: 10,
                metrics: Some(true),
                num_counters: vec![2, 3, 5, 8, 16, 64],
                async_pct: 35,
                w: w(|w| {
                    w.get = 45;
                    w.getmut = 8;
                    w.getwide = 4;
                    w.policy = 9;
                    w.insert = 14;
                    w.clear = 1;
                }),
                len: (10, 90),
                ..d
            },
            quick: 16_000,
            thorough: 300_000,
            rule: "lock-step cases with a parked policy worker, buffer_items in {0,1,2,3,5,64}, lookups of the table keys and runs of lookups of up to hundreds of distinct absent keys (several aging windows, doorkeeper filled many times over); non-trivial = >=1 flushed batch containing a missed key or >=1 dropped batch; distinct by case hash",
            nontrivial: |f| f.batches_with_miss > 0 || f.batches_dropped > 0,
            assumptions: &["sync: a batch is dropped iff 3 batches are already queued; async: never while open"],
            scenarios: vec![],
        },
        "C16" => LsCheck {
            id: "C16",
            profile: Profile {
                name: "charged-cost",
                negative_costs: true,
                modes: vec![Mode::Quiescent, Mode::Quiescent, Mode::Schedule],
                ttl_pct: 25,
                w: w(|w| {
                    w.insert = 42;
                    w.iip = 8;
                    w.tick = 6;
                }),
                ..d
            },
            quick: 24_000,
            thorough: 400_000,
            rule: "lock-step cases (two thirds quiescent; one third with the processor arms firing only where generated, so that updates also meet a full insert buffer), explicit, negative and Coster-valued (cost 0) writes, both settings of ignore_internal_cost; non-trivial = an update of a resident key that changes its charge, or a Coster-valued write; distinct by case hash",
            nontrivial: |f| f.cost_changing_updates > 0 || f.coster_writes > 0,
            assumptions: &["default (always) validator"],
            scenarios: vec![],
        },
        "C17" => LsCheck {
            id: "C17",
            profile: Profile {
                name: "metrics",
                cap: Cap::Tight,
                metrics: Some(true),
                negative_costs: true,
                ttl_pct: 30,
                w: w(|w| {
                    w.get = 20;
                    w.clear = 3;
                    w.tick = 8;
                }),
                ..d
            },
            quick: 24_000,
            thorough: 400_000,
            rule: "lock-step cases with metrics on, a tenth of the explicit costs negative (the cost counters wrap by design); non-trivial = (>=1 eviction and >=1 cost-decreasing update) or >=1 dropped set; distinct by case hash",
            nontrivial: |f| (f.admissions_with_eviction > 0 && f.cost_decreasing_updates > 0) || f.dropped_sets > 0,
            assumptions: &["counters compared at every step in the parked engine (every step is a quiescent point of the stripes)"],
            scenarios: vec![],
        },
        "C18" => LsCheck {
            id: "C18",
            profile: Profile {
                name: "collisions",
                layout: Layout::Collide,
                keys: (2, 6),
                ttl_pct: 30,
                w: w(|w| {
                    w.get = 20;
                    w.getmut = 6;
                    w.getttl = 6;
                    w.remove = 12;
                    w.clear = 1;
                    w.umc = 0;
                }),
                getmut_write: true,
                ..d
            },
            quick: 24_000,
            thorough: 400_000,
            rule: "lock-step cases whose key builder maps pairs of keys to one index hash with distinct non-zero conflict hashes; non-trivial = an operation on one member of a pair while the other is resident; distinct by case hash",
            nontrivial: |f| f.collide_ops_while_partner_resident > 0,
            assumptions: &["only what the property states: lookups/inserts/removes of one key never read, overwrite or remove the other's value (charge bookkeeping of colliding keys is not part of the property)"],
            scenarios: vec![],
        },
        "C20" => LsCheck {
            id: "C20",
            profile: Profile {
                name: "any-config-workload",
                cap: Cap::Mixed,
                negative_max: true,
                interpose: 8,
                ttl_pct: 50,
                periodic_pct: 30,
                num_counters: vec![1, 2, 3, 5, 7, 8, 16, 33, 64, 70],
                buffer_sizes: vec![1, 2, 3, 5, 8, 64],
                buffer_items: vec![0, 1, 2, 3, 5, 64],
                validators: vec![Validator::Always, Validator::Always, Validator::TagGe, Validator::Never],
                getmut_write: true,
                w: w(|w| {
                    w.remove = 12;
                    w.tick = 10;
                    w.adv = 14;
                    w.clear = 3;
                    w.umc = 3;
                }),
                ..d
            },
            quick: 16_000,
            thorough: 300_000,
            rule: "lock-step cases over the small and odd builder parameters (num_counters 1..70, buffer_size 1.., buffer_items 0/1.., negative max_cost, both flags) with a workload of inserts, lookups, removes, TTL expiry, evictions and client operations interposed inside processor steps and cleanup sweeps: no panic in the caller or in a processor step; non-trivial = the workload reclaimed an expired entry or evicted one; distinct by case hash",
            nontrivial: |f| f.reclaimed > 0 || f.admissions_with_eviction > 0,
            assumptions: &["in this engine the background workers are stepped on the interpreter's thread, so a worker panic surfaces as a panic of the step"],
            scenarios: vec![(800, sweep_race_scenario), (500, clear_reuse_scenario)],
        },
        _ => return None,
    })
}

pub fn case_sample(case: &Case) -> serde_json::Value {
    serde_json::to_value(case).unwrap_or(json!("unserialisable"))
}

pub enum CaseResult {
    Ok(Report),
    Panic(String),
    Harness(String),
}

pub fn run_case_caught(case: &Case, trace: bool) -> CaseResult {
    stretto::verif::set_thread_yield_hook(None);
    stretto::verif::set_thread_yield_hook2(None);
    let _ = panics_take();
    let _watch = watch_case("lockstep", case);
    let r = catch_unwind(AssertUnwindSafe(|| run_case(case, trace)));
    crate::clock::set_thread(None);
    stretto::verif::set_thread_yield_hook(None);
    match r {
        Ok(Ok(rep)) => CaseResult::Ok(rep),
        Ok(Err(e)) => CaseResult::Harness(format!("cache could not be built: {}", e)),
        Err(_) => {
            let p = panics_take().join(" | ");
            if p.contains("HARNESS") || p.contains(" at src/") {
                CaseResult::Harness(p)
            } else {
                CaseResult::Panic(p)
            }
        }
    }
}

/// failures of `case` that speak for `prop` (a panic speaks for C20 and for the running property
/// when it is a hang of wait())
pub fn failures_for(prop: &str, case: &Case, stats: Option<&Stats>, nontrivial: fn(&Feats) -> bool) -> Result<Vec<String>, String> {
    match run_case_caught(case, false) {
        // every generated configuration is one the builder documents as valid (non-zero counters,
        // max_cost and buffer size): a refusal is what C20 excludes
        CaseResult::Harness(m) if prop == "C20" && m.starts_with("cache could not be built") => Ok(vec![format!("[valid_config_rejected] {} ({:?})", m, case.cfg)]),
        CaseResult::Harness(m) => Err(m),
        CaseResult::Panic(p) => {
            let hang_wait = p.contains("HANG wait");
            if (hang_wait && prop == "C10") || (!hang_wait && prop == "C20") || (!hang_wait && !p.contains("HANG")) {
                Ok(vec![format!("panic: {}", p)])
            } else {
                Ok(vec![])
            }
        }
        CaseResult::Ok(rep) => {
            if let Some(stats) = stats {
                let f = &rep.feats;
                let nt = nontrivial(f);
                stats.case(hash_of(case), nt, || case_sample(case));
                stats.count(match case.cfg.mode {
                    Mode::Quiescent => "mode:quiescent",
                    Mode::Schedule => "mode:schedule",
                });
                stats.count(match case.cfg.flavour {
                    Flavour::Sync => "flavour:sync",
                    Flavour::Async => "flavour:async",
                });
                for (name, on) in [
                    ("nontrivial", nt),
                    ("eviction", f.admissions_with_eviction > 0),
                    ("multi_victim", f.multi_victim > 0),
                    ("pop_reject", f.pop_rejections > 0),
                    ("oversize_reject", f.oversize_rejections > 0),
                    ("reclaimed_by_tick", f.reclaimed > 0),
                    ("ttl_switch", f.ttl_switches > 0),
                    ("clear", f.clears > 0),
                    ("patient_clear", f.patient_clears > 0),
                    ("clear_with_pending", f.clears_with_pending > 0),
                    ("veto", f.vetoes > 0),
                    ("dropped_set", f.dropped_sets > 0),
                    ("wait", f.waits > 0),
                    ("batch_dropped", f.batches_dropped > 0),
                    ("window_reset", f.window_resets > 0),
                    ("model_desynced", f.desynced),
                    ("interposed", f.interposed > 0),
                    ("interposed_same_key", f.interposed_same_key > 0),
                    ("op_returned_err", f.errs > 0),
                    ("max_cost_lowered_then_admit", f.max_cost_lowered_then_admit > 0),
                    ("over_budget_then_admit", f.over_budget_then_admit > 0),
                    ("evict_then_reject", f.evict_then_reject > 0),
                ] {
                    if on {
                        stats.count(name);
                    }
                }
                for fl in rep.failures.iter().filter(|f| !f.is_for(prop)) {
                    *stats.other_pred_failures.lock().entry(fl.pred.to_string()).or_insert(0) += 1;
                }
            }
            let collide = has_index_collisions(case);
            let mut own: Vec<String> = rep
                .failures
                .iter()
                .filter(|f| speaks_for(f, prop, collide))
                .map(|f| format!("[{}] step {}: {}", f.pred, f.step, f.msg))
                .collect();
            // C09, metamorphic: a vetoed write changes nothing about the resident entry, so a
            // sweep/visibility failure that disappears when the vetoed writes are taken out of the
            // history was caused by one of them
            const SWEEP_PREDS: &[&str] = &["tick_evicts_unexpired", "tick_only_expired", "tick_must_reclaim", "entry_lost", "lookup_lost", "served_after_ttl"];
            if prop == "C09" && !collide && own.is_empty() && !rep.vetoed_ops.is_empty() {
                if let Some(f) = rep.failures.iter().find(|f| SWEEP_PREDS.contains(&f.pred)) {
                    let mut twin = case.clone();
                    let mut idx = rep.vetoed_ops.clone();
                    idx.sort_unstable();
                    idx.dedup();
                    for i in idx.into_iter().rev() {
                        if i < twin.ops.len() {
                            twin.ops.remove(i);
                        }
                    }
                    if let CaseResult::Ok(rep2) = run_case_caught(&twin, false) {
                        if !rep2.failures.iter().any(|g| SWEEP_PREDS.contains(&g.pred)) {
                            own.push(format!(
                                "[veto_disturbed_entry] step {}: {} - and the same history without its {} vetoed write(s) shows no such failure: a vetoed write changed the entry's expiry bookkeeping",
                                f.step,
                                f.msg,
                                rep.vetoed_ops.len()
                            ));
                        }
                    }
                }
            }
            Ok(own)
        }
    }
}

#[derive(Clone)]
pub struct CheckOutcome {
    pub violation: Option<(String, String)>,
    pub inconclusive: Option<String>,
}

pub fn run_ls_check(chk: &LsCheck, tier: &str, seed: u64, stats: &Stats) -> CheckOutcome {
    let n = if tier_is_thorough(tier) { chk.thorough } else { chk.quick };
    let harness_err: parking_lot::Mutex<Option<String>> = parking_lot::Mutex::new(None);
    let as_prop: String = std::env::var("VERIF_AS").unwrap_or_else(|_| chk.id.to_string());
    let as_prop: &str = &as_prop;
    let mk = || -> proptest::strategy::BoxedStrategy<Case> {
        if chk.scenarios.is_empty() {
            return case_strategy(&chk.profile);
        }
        let used: u32 = chk.scenarios.iter().map(|s| s.0).sum();
        let mut arms: Vec<(u32, proptest::strategy::BoxedStrategy<Case>)> = vec![(5000u32.saturating_sub(used).max(1), case_strategy(&chk.profile))];
        for (w, f) in chk.scenarios.iter() {
            arms.push((*w, f(&chk.profile)));
        }
        proptest::strategy::Union::new_weighted(arms).boxed()
    };
    let res = run_prop(mk, n, seed, 16, stats, |case| match failures_for(as_prop, case, Some(stats), chk.nontrivial) {
        Err(h) => {
            let mut g = harness_err.lock();
            if g.is_none() {
                let _ = write_replay("inconclusive", "lockstep", case, &h);
                *g = Some(h);
            }
            Ok(())
        }
        Ok(f) if f.is_empty() => Ok(()),
        Ok(f) => Err(f.join("; ")),
    });
    if let Some(h) = harness_err.into_inner() {
        return CheckOutcome { violation: None, inconclusive: Some(h) };
    }
    if let Some(a) = res.aborted {
        return CheckOutcome { violation: None, inconclusive: Some(format!("proptest aborted: {}", a)) };
    }
    match res.failure {
        None => CheckOutcome { violation: None, inconclusive: None },
        Some((case, msg)) => {
            let (case, msg) = minimize_case(as_prop, case, msg);
            let path = write_replay(chk.id, "lockstep", &case, &msg);
            CheckOutcome { violation: Some((msg, path)), inconclusive: None }
        }
    }
}

pub fn replay_ls(prop: &str, case: &Case) -> (Vec<String>, Vec<String>) {
    // key tables with shared indexes are inside the quantifier of C18 only (the other properties
    // tell keys apart by their index hash)
    let collide = has_index_collisions(case);
    match run_case_caught(case, true) {
        CaseResult::Ok(rep) => (
            rep.failures.iter().filter(|f| speaks_for(f, prop, collide)).map(|f| format!("[{}] step {}: {}", f.pred, f.step, f.msg)).collect(),
            rep.trace,
        ),
        CaseResult::Panic(p) => (vec![format!("panic: {}", p)], vec![]),
        CaseResult::Harness(h) if prop == "C20" && h.starts_with("cache could not be built") => (vec![format!("[valid_config_rejected] {}", h)], vec![]),
        CaseResult::Harness(h) => (vec![], vec![format!("HARNESS: {}", h)]),
    }
}

/// Key tables with shared index hashes are inside the quantifier of C18; the other properties tell
/// keys apart by their index hash, and their model-based predicates do not follow the charge
/// bookkeeping of colliding keys (observation D9). On such tables only the predicates that need no
/// model speak for another property.
const COLLISION_SAFE_PREDS: &[&str] = &["replacement_against_validator"];

pub fn speaks_for(f: &Failure, prop: &str, collide: bool) -> bool {
    f.is_for(prop) && (!collide || prop == "C18" || COLLISION_SAFE_PREDS.contains(&f.pred))
}

pub fn has_index_collisions(case: &Case) -> bool {
    let mut idx: Vec<u64> = case.cfg.keys.iter().map(|k| k.0).collect();
    idx.sort_unstable();
    idx.windows(2).any(|w| w[0] == w[1])
}

/// Greedy reduction after proptest's own shrinking: drop ops (chunks, then single ops), simplify
/// the configuration a little; keep a candidate only if the property still fails on it.
pub fn minimize_case(prop: &str, mut case: Case, mut msg: String) -> (Case, String) {
    let fails = |c: &Case| -> Option<String> {
        match failures_for(prop, c, None, |_| false) {
            Ok(f) if !f.is_empty() => Some(f.join("; ")),
            _ => None,
        }
    };
    let mut budget = 4000usize;
    let t0 = std::time::Instant::now();
    let tmax = shrink_budget();
    let fails = |c: &Case| -> Option<String> {
        if t0.elapsed() > tmax {
            return None;
        }
        fails(c)
    };
    let mut chunk = (case.ops.len() / 2).max(1);
    while chunk >= 1 && budget > 0 {
        let mut i = 0;
        let mut progressed = false;
        while i < case.ops.len() && budget > 0 {
            let mut cand = case.clone();
            let end = (i + chunk).min(cand.ops.len());
            cand.ops.drain(i..end);
            budget -= 1;
            if let Some(m) = fails(&cand) {
                case = cand;
                msg = m;
                progressed = true;
            } else {
                i += chunk;
            }
        }
        if chunk == 1 && !progressed {
            break;
        }
        if !progressed || chunk > 1 {
            chunk = if chunk > 1 { chunk / 2 } else { 1 };
        }
    }
    // configuration simplifications
    let mut tries: Vec<Box<dyn Fn(&mut Case)>> = Vec::new();
    tries.push(Box::new(|c| c.cfg.flavour = Flavour::Sync));
    tries.push(Box::new(|c| c.cfg.metrics = false));
    tries.push(Box::new(|c| c.cfg.start_ns = 0));
    tries.push(Box::new(|c| c.cfg.buffer_items = 64));
    tries.push(Box::new(|c| c.cfg.validator = Validator::Always));
    tries.push(Box::new(|c| c.cfg.ignore_internal_cost = true));
    for t in tries {
        let mut cand = case.clone();
        t(&mut cand);
        if cand != case {
            if let Some(m) = fails(&cand) {
                case = cand;
                msg = m;
            }
        }
    }
    (case, msg)
}

// ------------------------------------------------------------------------------------------
// component (E4) checks
// ------------------------------------------------------------------------------------------

use crate::comp::{self, CompFeats};
use proptest::strategy::Strategy;

pub fn run_comp<S, M>(
    prop: &str,
    engine: &str,
    mk: M,
    f: fn(&S::Value) -> Result<CompFeats, String>,
    n: u32,
    seed: u64,
    stats: &Stats,
) -> CheckOutcome
where
    S: Strategy,
    M: Fn() -> S + Sync,
    S::Value: Clone + Send + std::fmt::Debug + serde::Serialize + std::hash::Hash + 'static,
{
    let harness_err: parking_lot::Mutex<Option<String>> = parking_lot::Mutex::new(None);
    let res = run_prop(mk, n, seed, 16, stats, |case| match {
        let _watch = watch_case(engine, case);
        f(case)
    } {
        Err(m) if m.contains("HARNESS") => {
            *harness_err.lock() = Some(m);
            Ok(())
        }
        Ok(feats) => {
            stats.case(hash_of(&(engine, case)), feats.nontrivial, || json!({"engine": engine, "case": case}));
            stats.count(&format!("{}:cases", engine));
            if feats.nontrivial {
                stats.count(&format!("{}:nontrivial", engine));
            }
            for c in feats.classes.iter() {
                stats.count(&format!("{}:{}", engine, c));
            }
            Ok(())
        }
        Err(m) => Err(m),
    });
    if let Some(h) = harness_err.into_inner() {
        return CheckOutcome { violation: None, inconclusive: Some(h) };
    }
    if let Some(a) = res.aborted {
        return CheckOutcome { violation: None, inconclusive: Some(format!("proptest aborted: {}", a)) };
    }
    match res.failure {
        None => CheckOutcome { violation: None, inconclusive: None },
        Some((case, msg)) => {
            let path = write_replay(prop, engine, &case, &msg);
            CheckOutcome { violation: Some((msg, path)), inconclusive: None }
        }
    }
}

pub struct CompPart {
    pub engine: &'static str,
    pub quick: u32,
    pub thorough: u32,
}

pub fn comp_parts(id: &str) -> Vec<CompPart> {
    match id {
        "C07" => vec![CompPart { engine: "policy", quick: 200_000, thorough: 4_000_000 }],
        "C13" => vec![
            CompPart { engine: "sketch", quick: 100_000, thorough: 2_000_000 },
            CompPart { engine: "tiny", quick: 100_000, thorough: 2_000_000 },
        ],
        "C14" => vec![CompPart { engine: "bloom", quick: 60_000, thorough: 1_000_000 }],
        "C18" => vec![CompPart { engine: "keys", quick: 60_000, thorough: 1_000_000 }, CompPart { engine: "typed-keys", quick: 1_200, thorough: 24_000 }],
        "C02" => vec![CompPart { engine: "typed-keys", quick: 1_200, thorough: 24_000 }],
        "C17" => vec![CompPart { engine: "hist", quick: 60_000, thorough: 1_000_000 }, CompPart { engine: "scale", quick: 16, thorough: 160 }],
        "C08" => vec![CompPart { engine: "scale", quick: 16, thorough: 160 }],
        "C04" => vec![CompPart { engine: "typed-c04", quick: 1_600, thorough: 30_000 }],
        "C09" => vec![CompPart { engine: "typed-c09", quick: 1_600, thorough: 30_000 }],
        "C03" => vec![CompPart { engine: "typed-c03", quick: 1_600, thorough: 30_000 }],
        "C16" => vec![CompPart { engine: "typed-all", quick: 1_600, thorough: 30_000 }],
        "C20" => vec![CompPart { engine: "typed-all", quick: 1_600, thorough: 30_000 }, CompPart { engine: "scale", quick: 12, thorough: 120 }],
        _ => vec![],
    }
}

pub fn run_comp_part(prop: &str, part: &CompPart, tier: &str, seed: u64, stats: &Stats) -> CheckOutcome {
    let n = if tier_is_thorough(tier) { part.thorough } else { part.quick };
    match part.engine {
        "policy" => run_comp(prop, "policy", comp::policy_strategy, comp::run_policy, n, seed, stats),
        "sketch" => run_comp(prop, "sketch", comp::sketch_strategy, comp::run_sketch, n, seed, stats),
        "tiny" => run_comp(prop, "tiny", comp::tiny_strategy, comp::run_tiny, n, seed, stats),
        "bloom" => run_comp(prop, "bloom", comp::bloom_strategy, comp::run_bloom, n, seed, stats),
        "keys" => run_comp(prop, "keys", comp::key_strategy, comp::run_keys, n, seed, stats),
        "hist" => run_comp(prop, "hist", comp::hist_strategy, comp::run_hist, n, seed, stats),
        "typed-c04" => run_comp(prop, "typed", comp::typed_strategy, comp::run_typed_c04, n, seed, stats),
        "typed-c09" => run_comp(prop, "typed", comp::typed_strategy, comp::run_typed_c09, n, seed, stats),
        "typed-c03" => run_comp(prop, "typed", comp::typed_strategy, comp::run_typed_c03, n, seed, stats),
        "typed-all" => run_comp(prop, "typed", comp::typed_strategy, comp::run_typed_all, n, seed, stats),
        "typed-keys" => run_comp(prop, "typed", comp::keyed_strategy, comp::run_typed_c04, n, seed, stats),
        "scale" => run_comp(prop, "scale", comp::scale_strategy, comp::run_scale, n, seed, stats),
        _ => unreachable!(),
    }
}

pub fn replay_comp(engine: &str, case: serde_json::Value) -> Option<Result<(), String>> {
    fn go<C: serde::de::DeserializeOwned>(case: serde_json::Value, f: fn(&C) -> Result<CompFeats, String>) -> Result<(), String> {
        let c: C = serde_json::from_value(case).map_err(|e| format!("bad replay case: {}", e))?;
        f(&c).map(|_| ())
    }
    Some(match engine {
        "policy" => go(case, comp::run_policy),
        "sketch" => go(case, comp::run_sketch),
        "tiny" => go(case, comp::run_tiny),
        "bloom" => go(case, comp::run_bloom),
        "keys" => go(case, comp::run_keys),
        "hist" => go(case, comp::run_hist),
        "scale" => go(case, comp::run_scale),
        "typed" => go(case, comp::run_typed_all),
        _ => return None,
    })
}

pub fn comp_rule(id: &str) -> (&'static str, &'static [&'static str]) {
    match id {
        "C07" => (
            "parked policy (facade): generated resident set (0-12 keys, costs 1-11, budget = total + 0..19), popularity shaped by generated lookup batches, optional in-place cost updates / changed max_cost, then one add(key, cost); oracle from estimates read before the add plus the per-round observer; non-trivial = the add found no room; distinct by case hash",
            &["estimates do not change during add (no concurrent policy worker in this engine)", "tie-breaking and sampling order are left free"],
        ),
        "C13" => (
            "count-min sketch and TinyLFU through the facade: widths 1..=70, 100, 127-129, 1000, 4096; structured hash palettes (random, small ints, high-bits-only, low-bits-only, equal modulo 2^k, extremes); ops increment / reset / clear; oracle = ideal exact counters with saturation and halving; non-trivial = a counter saturated, two hashes shared a counter, a reset happened or the aging window was crossed; distinct by case hash",
            &["the sketch rows are seeded from the (virtual) clock second at construction"],
        ),
        "C14" => (
            "bloom filter through the facade: capacity 1..5000 (biased to small and 2^k+-1), rate in {0.001,0.01,0.05,0.1,0.3}; structured hash sets; ops add / contains_or_add / reset / clear, membership checked after every op; statistical part: n random hashes into a filter built for n, 4000 fresh probes, fail above 4pm+5sqrt(pm)+8; non-trivial = membership ops on a structured set, or a false-positive measurement (n>=50); distinct by case hash",
            &["the false-positive bound is claimed for uniformly random hashes only"],
        ),
        "C02" | "C18" => (
            "key types (E4b typed-keys): quiescent histories (wait() after every write, real workers, sync and async) of insert / insert_with_ttl / insert_if_present / remove over five key slots against an exact map, on caches keyed by i8..i64, u8..u64, isize, usize under TransparentKeyBuilder and by String / i64 under DefaultKeyBuilder; the slots hold boundary values of the type (two keys equal in the low half of the width, -1 / MAX, the low half all ones, the sign bit); every slot is looked up after every step; non-trivial = an insert_if_present on a resident key; distinct by case hash",
            &["ample capacity (max_cost 2^40): no eviction, no rejection"],
        ),
        _ => ("", &[]),
    }
}

// ------------------------------------------------------------------------------------------
// stress (E3) checks
// ------------------------------------------------------------------------------------------

use crate::stress::{self, Kind, SResult, StressCase};

pub struct StressPart {
    /// every generated case on colliding key pairs with the perturbing hasher
    pub force_collide: bool,
    pub kind: Kind,
    pub quick: u32,
    pub thorough: u32,
    pub async_pct: u32,
}

pub fn stress_parts(id: &str) -> Vec<StressPart> {
    let p = |kind, quick, thorough, async_pct| StressPart { force_collide: false, kind, quick, thorough, async_pct };
    let pc = |kind, quick, thorough, async_pct| StressPart { force_collide: true, kind, quick, thorough, async_pct };
    match id {
        "C02" => vec![p(Kind::Invariants, 640, 12000, 25), p(Kind::Validated, 200, 4000, 25), pc(Kind::Invariants, 2400, 20000, 25)],
        "C17" => vec![p(Kind::Invariants, 640, 12000, 25), p(Kind::Lookups, 240, 4000, 35), p(Kind::Close, 480, 8000, 30)],
        "C01" | "C06" => vec![p(Kind::Invariants, 640, 12000, 25)],
        "C08" => vec![p(Kind::Invariants, 1280, 16000, 25)],
        "C11" => vec![p(Kind::Invariants, 640, 12000, 25)],
        "C04" => vec![p(Kind::Invariants, 320, 6000, 25)],
        "C16" => vec![p(Kind::Invariants, 320, 6000, 25), p(Kind::Reclaim, 96, 2000, 50)],
        "C05" => vec![p(Kind::Reclaim, 96, 2000, 50)],
        "C09" => vec![p(Kind::Validated, 480, 8000, 25)],
        "C15" => vec![p(Kind::Lookups, 480, 8000, 35)],
        "C18" => vec![pc(Kind::Invariants, 4800, 40000, 25)],
        "C13" => vec![p(Kind::Lookups, 320, 6000, 35)],
        "C10" => vec![p(Kind::Barrier, 640, 12000, 25), p(Kind::WaitRace, 640, 12000, 25)],
        "C12" => vec![p(Kind::Close, 2880, 24000, 30)],
        "C20" => vec![p(Kind::Config, 960, 16000, 30), p(Kind::Close, 480, 8000, 30)],
        "C19" => vec![
            p(Kind::Invariants, 320, 6000, 100),
            p(Kind::Barrier, 240, 5000, 100),
            p(Kind::WaitRace, 320, 6000, 100),
            p(Kind::Close, 640, 10000, 100),
            p(Kind::Config, 320, 6000, 100),
            p(Kind::Reclaim, 96, 2000, 100),
            p(Kind::Lookups, 240, 4000, 100),
        ],
        _ => vec![],
    }
}

#[derive(Clone, Debug, serde::Deserialize)]
pub struct KnownEntry {
    pub status: String,
    pub property: String,
    #[serde(default)]
    pub signature: String,
    #[serde(default)]
    pub what: String,
}

pub fn known_findings(prop: &str) -> Vec<KnownEntry> {
    let path = verif_dir().join("known_findings.json");
    let text = match std::fs::read_to_string(path) {
        Ok(t) => t,
        Err(_) => return vec![],
    };
    let v: serde_json::Value = match serde_json::from_str(&text) {
        Ok(v) => v,
        Err(_) => return vec![],
    };
    v["entries"]
        .as_array()
        .map(|a| a.iter().filter_map(|e| serde_json::from_value::<KnownEntry>(e.clone()).ok()).filter(|e| e.status == "known" && e.property == prop).collect())
        .unwrap_or_default()
}

pub fn run_stress_part(prop: &str, part: &StressPart, tier: &str, seed: u64, stats: &Stats, known: &[KnownEntry], known_hit: &mut Vec<String>) -> CheckOutcome {
    let n = if tier_is_thorough(tier) { part.thorough } else { part.quick } as usize;
    // while a wait-vs-close finding is known, the search leaves closers out of wait races (the
    // pattern is excluded by construction and probed separately), so that it can continue behind it
    let exclude_close = known.iter().any(|k| k.signature == "wait_blocked_after_close");
    let strat = stress::stress_strategy(part.kind, part.async_pct);
    let mut cases: Vec<StressCase> = sample_values(&strat, n, seed.wrapping_mul(31).wrapping_add(part.kind as u64 + 1 + 1000 * part.force_collide as u64));
    if part.force_collide {
        // a third of the cases: remover storm - one writer alternates the two keys of a pair
        // (insert a; wait; insert b; wait; lookups of b), the other threads keep removing a
        let mut storm: Vec<bool> = vec![false; cases.len()];
        for (ci, c) in cases.iter_mut().enumerate() {
            if ci % 3 != 0 || c.threads.len() < 3 {
                continue;
            }
            storm[ci] = true;
            let rounds = 6;
            let mut w = Vec::new();
            for r in 0..rounds {
                // (an hour of TTL never runs out here, but it makes removes work on the expiry index)
                w.push(stress::SOp::Insert { k: 0, cost: 1, ttl_ms: 3_600_000 });
                w.push(stress::SOp::Wait);
                w.push(stress::SOp::Spin(200 + 300 * (r as u16 % 3)));
                if r % 2 == 0 {
                    w.push(stress::SOp::Remove { k: 0 });
                }
                w.push(stress::SOp::Insert { k: 1, cost: 1, ttl_ms: 0 });
                w.push(stress::SOp::Wait);
                for _ in 0..4 {
                    w.push(stress::SOp::Get { k: 1 });
                    w.push(stress::SOp::Spin(400));
                }
            }
            let n = c.threads.len();
            c.threads[0] = w;
            for t in 1..n {
                let mut v = Vec::new();
                for i in 0..(rounds * 6) {
                    v.push(stress::SOp::Remove { k: 0 });
                    if i % 3 == t % 3 {
                        v.push(stress::SOp::Spin(150));
                    }
                }
                c.threads[t] = v;
            }
        }
        // two colliding pairs only, and half of the plain lookups through get_mut
        for (ci, c) in cases.iter_mut().enumerate() {
            c.cfg.collide = true;
            // ample capacity and no TTLs: a resident value then leaves only through an operation
            // on its own key or a clear()
            c.cfg.max_cost = 1 << 40;
            // a wait() after every remove: its Delete item is then applied before the thread goes on
            for (ti, t) in c.threads.iter_mut().enumerate() {
                let _ = (ti, &storm);
                let mut v = Vec::with_capacity(t.len() + 8);
                for op in t.drain(..) {
                    let rm = matches!(op, stress::SOp::Remove { .. });
                    v.push(op);
                    if rm {
                        v.push(stress::SOp::Wait);
                    }
                }
                *t = v;
            }
            for t in c.threads.iter_mut() {
                for (i, op) in t.iter_mut().enumerate() {
                    if let stress::SOp::Insert { ttl_ms, .. } = op {
                        // nothing expires within a case
                        *ttl_ms = if *ttl_ms == 0 { 0 } else { 3_600_000 };
                    }
                    if matches!(op, stress::SOp::UpdateMax { .. }) {
                        *op = stress::SOp::Spin(100);
                    }
                    match op {
                        stress::SOp::Insert { k, .. } | stress::SOp::Iip { k, .. } | stress::SOp::Remove { k } | stress::SOp::GetMut { k } | stress::SOp::GetLinger { k, .. } => *k %= 4,
                        stress::SOp::Get { k } => {
                            *k %= 4;
                            if i % 2 == 0 {
                                *op = stress::SOp::GetMut { k: *k };
                            }
                        }
                        _ => {}
                    }
                }
            }
        }
    }
    let mut excluded = 0u64;
    if exclude_close && part.kind == Kind::WaitRace {
        for c in cases.iter_mut() {
            let before = c.threads.len();
            c.threads.retain(|t| !t.iter().any(|o| matches!(o, stress::SOp::Close)));
            if c.threads.len() != before {
                excluded += 1;
            }
            if c.threads.is_empty() {
                c.threads.push(vec![stress::SOp::Wait]);
            }
        }
        // the probe: the same generator with closers kept, a fixed number of cases
        let probe: Vec<StressCase> = sample_values(&strat, n / 4 + 8, seed.wrapping_add(0xC105E)).into_iter().filter(|c| c.threads.iter().flatten().any(|o| matches!(o, stress::SOp::Close))).collect();
        cases.extend(probe);
    }
    if excluded > 0 {
        *stats.known_hits.lock().entry("cases_with_known_pattern_excluded_by_construction".into()).or_insert(0) += excluded;
    }
    let kind_name = format!("{:?}", part.kind);
    let mut violation: Option<(String, String)> = None;
    let mut inconclusive: Option<String> = None;
    let mut timeouts = 0u32;
    crate::pool::run_cases(&cases, 16, std::time::Duration::from_secs(45), |i, r| {
        let case = &cases[i];
        match r.status.as_str() {
            "ok" => {
                stats.case(hash_of(case), r.nontrivial, || json!({"engine": "stress", "case": case}));
                stats.count(&format!("stress:{}:cases", kind_name));
                stats.count(&format!("stress:exec:{:?}", case.exec));
                if r.nontrivial {
                    stats.count(&format!("stress:{}:nontrivial", kind_name));
                }
                for c in r.classes.iter() {
                    stats.count(&format!("stress:{}:{}", kind_name, c));
                }
                true
            }
            "violation" | "hang" => {
                stats.case(hash_of(case), true, || json!({"engine": "stress", "case": case}));
                // C19: the async flavour must satisfy every property on every executor
                let relevant = r.props.iter().any(|p| p == prop) || (prop == "C19" && case.exec.is_async());
                if !relevant {
                    *stats.other_pred_failures.lock().entry(r.pred.clone()).or_insert(0) += 1;
                    return true;
                }
                if let Some(k) = known.iter().find(|k| k.signature == r.pred) {
                    *stats.known_hits.lock().entry(k.signature.clone()).or_insert(0) += 1;
                    let line = format!("KNOWN-FINDING: property={} {} ({})", prop, k.signature, k.what);
                    if !known_hit.contains(&line) {
                        known_hit.push(line);
                    }
                    return true;
                }
                if violation.is_none() {
                    let msg = format!("[{}] {}", r.pred, r.msg);
                    let body = json!({"case": case, "observed": {"status": r.status, "pred": r.pred, "msg": r.msg, "history": r.history}});
                    let path = write_replay(prop, "stress", &body, &msg);
                    violation = Some((msg, path));
                }
                false
            }
            "busy" | "timeout" | "crash" => {
                timeouts += 1;
                let body = json!({"case": case, "observed": {"status": r.status, "pred": r.pred, "msg": r.msg, "history": r.history}});
                let _ = write_replay("inconclusive", "stress", &body, &r.msg);
                if timeouts > 3 && inconclusive.is_none() {
                    inconclusive = Some(format!("{} cases ended without a verdict, last: {} {}", timeouts, r.status, r.msg));
                    return false;
                }
                true
            }
            _ => {
                if inconclusive.is_none() {
                    inconclusive = Some(format!("harness problem: {} {}", r.status, r.msg));
                }
                false
            }
        }
    });
    if timeouts > 0 {
        *stats.classes.lock().entry("stress:cases_without_verdict".into()).or_insert(0) += timeouts as u64;
    }
    CheckOutcome { violation, inconclusive }
}

/// replay of a stress case: the OS schedule is not reproducible, so the scripts are re-run many times
pub fn replay_stress(prop: &str, body: &serde_json::Value) -> (Vec<String>, usize) {
    let case: StressCase = match serde_json::from_value(body["case"].clone()) {
        Ok(c) => c,
        Err(e) => return (vec![format!("bad stress case: {}", e)], 0),
    };
    let runs = 200;
    let res = crate::pool::rerun(&case, runs, 16);
    let fails: Vec<String> = res
        .iter()
        .filter(|r| (r.status == "violation" || r.status == "hang") && r.props.iter().any(|p| p == prop))
        .map(|r| format!("[{}] {}", r.pred, r.msg))
        .collect();
    (fails, runs)
}

pub fn stress_rule(id: &str) -> (&'static str, &'static [&'static str]) {
    match id {
        "C10" => (
            "real threads, real workers, in worker processes: (barrier) 1-4 threads on owned keys issue batches of inserts/removes (each key at most once per batch) then wait(); after Ok and with no overlapping clear() each key must read as the thread's last operation left it and be charged accordingly; (termination) wait() raced with clear(), close() and 1-3-slot buffers must return; a hang is reported only with state evidence (blocked call, worker counters, CPU flat). non-trivial = barrier case, or a wait() overlapping clear()/close(); distinct by case hash",
            &["the OS schedule is sampled, not enumerated; seeded perturbation at the yield points", "a timeout without state evidence is inconclusive, never a violation"],
        ),
        "C12" => (
            "real threads in worker processes: pre-close history, 1-4 concurrent closers, 0-3 threads racing try_* operations and lookups, or every handle dropped without close; afterwards every API call is checked to be inert and non-blocking, and worker guards / OS thread count / spawned-task completion must return to the baseline; non-trivial = >=2 closers, or >=1 racing thread, or drop-only; distinct by case hash",
            &["wait() is not in the racing set (C10 owns that race)", "Err results of calls racing a close are legal"],
        ),
        "C20" => (
            "builder parameters num_counters 0..70 + {100,1000,4096,12345}, max_cost {neg,0,1,2,10,100,1e6,i64::MAX}, buffer_size {0,1,2,3,64,32768}, buffer_items {0,1,2,64}, metrics, ignore_internal_cost, cleanup {1,10,500,2000}ms; workload of inserts, lookups, removes, TTLs under a process-wide virtual clock with the real ticker; zeros must be rejected with the right error; otherwise no panic anywhere, workers alive, wait() Ok, a later insert processed; non-trivial = num_counters <8 or not a power of two, buffer_size <=2, buffer_items <=1 or max_cost <=1; distinct by case hash",
            &["configurations whose tables would not fit in memory are not generated"],
        ),
        "C19" => (
            "async flavour on four executors (tokio multi-thread, tokio current-thread, async-std, thread-per-task) through the same stress kinds as the sync cache (invariants, wait barrier/termination, close, configurations), plus the lock-step differential: the same case and schedule on parked Cache and AsyncCache must produce identical observations step by step",
            &["executors present in the cargo cache only"],
        ),
        "C13" | "C15" => (
            "stress part (lookups): 2-6 reader threads over 40 keys (few lookups each, far below the aging window) while 1-2 threads keep the policy lock busy (admission decisions, update_max_cost) against a cache with real workers; at quiescence hits + misses == lookups, kept + dropped == b*floor(lookups/b), and - if nothing was dropped - every key's estimate falls short of its recorded lookups by at most the b-1 still in the ring",
            &["the OS schedule is sampled, not enumerated"],
        ),
        _ => (
            "stress part: 2-6 real client threads with generated scripts on shared keys against a cache with real workers (tight capacity, TTLs under a global virtual clock, 5ms real ticker); inline: a lookup returns only a value written under that key and not yet handed to a callback before the lookup began; at quiescence: charged total == sum of charges, resident keys == charged keys (if no call returned Err), callback conservation, metrics conservation, every cost reported to on_reject is the newcomer's own charge and every cost reported to on_evict the charge of some value written under that key (or, for an item a clear()/stop drain discarded from the buffer, the cost as queued); one case in five is a hot-key case (every thread on the same two keys); reclaim part (C05, C16): entries with TTLs expire under continuing traffic and must reach on_evict exactly once with the cost they were charged",
            &["the OS schedule is sampled, not enumerated"],
        ),
    }
}

// ------------------------------------------------------------------------------------------
// C19: lock-step differential sync vs async
// ------------------------------------------------------------------------------------------

pub fn diff_profile() -> Profile {
    Profile {
        name: "sync-vs-async",
        modes: vec![Mode::Quiescent],
        async_pct: 0,
        cap: Cap::Mixed,
        ttl_pct: 55,
        len: (20, 90),
        big_advances: false,
        metrics: Some(true),
        validators: vec![Validator::Always, Validator::TagGe, Validator::Never],
        getmut_write: true,
        w: {
            let mut w = Weights::default();
            w.clear = 4;
            w.tick = 14;
            w.adv = 16;
            w.wait = 3;
            w.gethold = 3;
            w.bulkwide = 1;
            w
        },
        ..Profile::default()
    }
}

/// run the same case on the parked sync and async caches; every observation must be equal
pub fn diff_case(case: &Case, stats: Option<&Stats>) -> Result<Vec<String>, String> {
    let mut a = case.clone();
    a.cfg.flavour = Flavour::Sync;
    let mut b = case.clone();
    b.cfg.flavour = Flavour::Async;
    let ra = match run_case_caught(&a, true) {
        CaseResult::Ok(r) => r,
        CaseResult::Harness(h) => return Err(h),
        CaseResult::Panic(p) => return Ok(vec![format!("sync flavour panicked: {}", p)]),
    };
    let rb = match run_case_caught(&b, true) {
        CaseResult::Ok(r) => r,
        CaseResult::Harness(h) => return Err(h),
        CaseResult::Panic(p) => return Ok(vec![format!("[async_panic] async flavour panicked: {}", p)]),
    };
    if let Some(stats) = stats {
        let f = &ra.feats;
        let nt = f.admissions_with_eviction > 0 && f.reclaimed > 0 && f.clears > 0;
        stats.case(hash_of(case), nt, || case_sample(case));
        stats.count("diff:cases");
        for (name, on) in [("diff:nontrivial", nt), ("diff:eviction", f.admissions_with_eviction > 0), ("diff:reclaimed_by_tick", f.reclaimed > 0), ("diff:clear", f.clears > 0), ("diff:wait", f.waits > 0), ("diff:veto", f.vetoes > 0)] {
            if on {
                stats.count(name);
            }
        }
    }
    let mut out = Vec::new();
    for (i, (x, y)) in ra.trace.iter().zip(rb.trace.iter()).enumerate() {
        if x != y {
            out.push(format!("[diff_observation] observation {} differs:\n   sync : {}\n   async: {}", i, x, y));
            break;
        }
    }
    if out.is_empty() && ra.trace.len() != rb.trace.len() {
        out.push(format!("[diff_length] sync produced {} observations, async {}", ra.trace.len(), rb.trace.len()));
    }
    // the async flavour must satisfy the model-based predicates too (over colliding key tables the
    // model speaks for C18 only - D9 -, there the two traces are all that is compared; a trace line
    // that reports a predicate failure is still compared like any other observation)
    let collide = has_index_collisions(case);
    for f in rb.failures.iter().filter(|_| !collide) {
        out.push(format!("[async:{}] step {}: {}", f.pred, f.step, f.msg));
        break;
    }
    Ok(out)
}

pub fn run_diff_check(tier: &str, seed: u64, stats: &Stats) -> CheckOutcome {
    let n = if tier_is_thorough(tier) { 150_000 } else { 8000 };
    let prof = diff_profile();
    let harness_err: parking_lot::Mutex<Option<String>> = parking_lot::Mutex::new(None);
    // a fifth of the cases over key tables in which pairs of keys share an index hash (distinct
    // conflict hashes): whatever the library does with colliding keys, both flavours do the same
    let collide = {
        let mut p = diff_profile();
        p.layout = Layout::Collide;
        p.keys = (2, 6);
        p.defaults_pct = 0;
        p.w.getttl = 8;
        p.w.getmut = 6;
        p.w.remove = 12;
        p
    };
    let mk = || proptest::strategy::Union::new_weighted(vec![(4u32, case_strategy(&prof)), (1u32, case_strategy(&collide))]).boxed();
    let res = run_prop(mk, n, seed, 16, stats, |case| match diff_case(case, Some(stats)) {
        Err(h) => {
            *harness_err.lock() = Some(h);
            Ok(())
        }
        Ok(f) if f.is_empty() => Ok(()),
        Ok(f) => Err(f.join("; ")),
    });
    if let Some(h) = harness_err.into_inner() {
        return CheckOutcome { violation: None, inconclusive: Some(h) };
    }
    match res.failure {
        None => CheckOutcome { violation: None, inconclusive: res.aborted },
        Some((case, msg)) => {
            // greedy reduction
            let mut case = case;
            let mut msg = msg;
            let mut i = 0;
            let mut budget = 1500;
            while i < case.ops.len() && budget > 0 {
                let mut cand = case.clone();
                cand.ops.remove(i);
                budget -= 1;
                match diff_case(&cand, None) {
                    Ok(f) if !f.is_empty() => {
                        case = cand;
                        msg = f.join("; ");
                    }
                    _ => i += 1,
                }
            }
            let path = write_replay("C19", "diff", &case, &msg);
            CheckOutcome { violation: Some((msg, path)), inconclusive: None }
        }
    }
}

// ------------------------------------------------------------------------------------------
// E5: entry points of the coverage-guided fuzz targets (/verif/fuzz)
// ------------------------------------------------------------------------------------------

fn fuzz_only() -> &'static str {
    static ONLY: std::sync::OnceLock<String> = std::sync::OnceLock::new();
    ONLY.get_or_init(|| std::env::var("VERIF_ONLY").unwrap_or_default())
}

/// One libFuzzer iteration of the lock-step engine: decode, run, panic with `ORACLE <id> ...` if a
/// predicate speaking for VERIF_ONLY (or for any property if unset) fails. All state the engine
/// touches (virtual clock, yield hooks) is thread-local and reset around the run.
pub fn fuzz_lockstep(data: &[u8]) {
    let case = crate::fuzzdec::decode_case(data);
    // domain: only C18 speaks about keys that share an index hash (DESIGN section 7)
    let only = fuzz_only();
    let mut idx: Vec<u64> = case.cfg.keys.iter().map(|k| k.0).collect();
    idx.sort_unstable();
    idx.dedup();
    if idx.len() != case.cfg.keys.len() && only != "C18" {
        return;
    }
    stretto::verif::set_thread_yield_hook(None);
    stretto::verif::set_thread_yield_hook2(None);
    let rep = run_case(&case, false);
    crate::clock::set_thread(None);
    stretto::verif::set_thread_yield_hook(None);
    stretto::verif::set_thread_yield_hook2(None);
    if let Ok(rep) = rep {
        if let Some(f) = rep.failures.iter().find(|f| only.is_empty() || f.is_for(only)) {
            panic!("ORACLE {} [{}] step {}: {}", f.props.join(","), f.pred, f.step, f.msg);
        }
    }
}

pub fn fuzz_estimators(data: &[u8]) {
    let c = crate::fuzzdec::decode_est(data);
    let (prop, r) = crate::fuzzdec::run_est(&c);
    crate::clock::set_thread(None);
    let only = fuzz_only();
    if let Err(m) = r {
        if only.is_empty() || only == prop {
            panic!("ORACLE {} {}", prop, m);
        }
    }
}

/// replay of a raw libFuzzer artifact through the ordinary (strict) path
pub fn replay_fuzz_artifact(prop: &str, target: &str, data: &[u8]) -> (Vec<String>, Vec<String>) {
    match target {
        "estimators" => {
            let c = crate::fuzzdec::decode_est(data);
            let (p, r) = crate::fuzzdec::run_est(&c);
            match r {
                Err(m) if p == prop => (vec![m], vec![]),
                _ => (vec![], vec![]),
            }
        }
        _ => {
            let case = crate::fuzzdec::decode_case(data);
            let mut idx: Vec<u64> = case.cfg.keys.iter().map(|k| k.0).collect();
            idx.sort_unstable();
            idx.dedup();
            if idx.len() != case.cfg.keys.len() && prop != "C18" {
                return (vec![], vec!["this input maps two keys to one index hash: outside the domain of every property but C18".to_string()]);
            }
            let mut trace = vec![format!("decoded case: {}", serde_json::to_string(&case).unwrap_or_default())];
            let (f, t) = replay_ls(prop, &case);
            trace.extend(t);
            (f, trace)
        }
    }
}

pub struct FuzzOutcome {
    pub execs: u64,
    pub violation: Option<(String, String)>,
    pub note: String,
}

/// Drive `cargo +nightly fuzz run <target>` for `secs` seconds with VERIF_ONLY=<prop>.
pub fn run_fuzz_campaign(prop: &str, target: &str, secs: u64, seed: u64) -> FuzzOutcome {
    let vd = verif_dir();
    let fuzz_dir = vd.join("fuzz");
    let corpus = vd.join("target").join("fuzz-corpus").join(format!("{}-{}", target, prop));
    let _ = std::fs::remove_dir_all(&corpus);
    let _ = std::fs::create_dir_all(&corpus);
    let art = vd.join("replays");
    let _ = std::fs::create_dir_all(&art);
    let prefix = format!("{}/fuzz-{}-{}-", art.display(), target, prop);
    let out = std::process::Command::new("cargo")
        .current_dir(&fuzz_dir)
        .env("RUSTFLAGS", "--cfg transparencies_stretto_verif -Aunexpected_cfgs -Amismatched_lifetime_syntaxes")
        .env("CARGO_TARGET_DIR", vd.join("target").join("fuzz-target"))
        .env("VERIF_ONLY", prop)
        .env("CARGO_NET_OFFLINE", "true")
        .args(["+nightly", "fuzz", "run", "--fuzz-dir", ".", target, corpus.to_str().unwrap(), "--"])
        .arg(format!("-max_total_time={}", secs))
        .arg(format!("-seed={}", (seed % 4_000_000_000) + 1))
        .arg("-len_control=0")
        .arg("-max_len=700")
        .arg("-print_final_stats=1")
        .arg(format!("-artifact_prefix={}", prefix))
        .output();
    let out = match out {
        Ok(o) => o,
        Err(e) => return FuzzOutcome { execs: 0, violation: None, note: format!("cargo fuzz could not be started: {}", e) },
    };
    let text = format!("{}\n{}", String::from_utf8_lossy(&out.stdout), String::from_utf8_lossy(&out.stderr));
    let execs = text
        .lines()
        .find_map(|l| l.strip_prefix("stat::number_of_executed_units:").map(|r| r.trim().parse::<u64>().unwrap_or(0)))
        .unwrap_or(0);
    if out.status.success() {
        return FuzzOutcome { execs, violation: None, note: format!("libFuzzer {} for {}s: {} executions, no crash", target, secs, execs) };
    }
    // a crash: find the artifact, confirm it through the strict replay path
    let artifact = text.lines().find_map(|l| l.find("Test unit written to ").map(|i| l[i + "Test unit written to ".len()..].trim().to_string()));
    match artifact {
        Some(path) => {
            let data = std::fs::read(&path).unwrap_or_default();
            let (fails, _) = replay_fuzz_artifact(prop, target, &data);
            if fails.is_empty() {
                FuzzOutcome { execs, violation: None, note: format!("libFuzzer reported a crash ({}) that does not reproduce as a violation of {} through the strict replay path: ignored", path, prop) }
            } else {
                FuzzOutcome { execs, violation: Some((fails.join("; "), path)), note: String::new() }
            }
        }
        None => {
            let tail: Vec<&str> = text.lines().rev().take(12).collect();
            FuzzOutcome { execs, violation: None, note: format!("cargo fuzz failed without an artifact (build problem?): {}", tail.into_iter().rev().collect::<Vec<_>>().join(" | ")) }
        }
    }
}

pub fn fuzz_target_for(id: &str) -> Option<&'static str> {
    match id {
        "C01" | "C02" | "C03" | "C04" | "C05" | "C06" | "C08" | "C09" | "C11" | "C15" | "C16" | "C17" | "C18" => Some("lockstep"),
        "C07" | "C13" | "C14" => Some("estimators"),
        _ => None,
    }
}

// ------------------------------------------------------------------------------------------
// C01: costs at the top of the i64 range (child process per case: a dead processor hangs wait())
// ------------------------------------------------------------------------------------------

#[derive(Clone, Debug, serde::Serialize, serde::Deserialize, Hash)]
pub struct HugeCostCase {
    /// the explicit cost is i64::MAX - below
    pub below: u64,
    pub ignore_internal_cost: bool,
    /// false: insert of a new key; true: update of a resident key
    pub update: bool,
    pub metrics: bool,
}

pub fn huge_cost_strategy() -> proptest::strategy::BoxedStrategy<HugeCostCase> {
    use proptest::prelude::*;
    let isz = crate::gen::item_size() as u64;
    (
        prop_oneof![
            3 => 0u64..=isz,                                  // cost + overhead leaves the i64 range
            2 => (isz + 1)..=(2 * isz + 15),                  // cost + overhead fits, running total + cost does not (update of one of two residents)
            1 => (2 * isz + 16)..=(2 * isz + 4000),           // just below: everything fits
            3 => prop_oneof![Just(1u64 << 40), Just(i64::MAX as u64 / 2), Just(i64::MAX as u64 - 1_000_000)],   // plain oversize
        ],
        any::<bool>(),
        any::<bool>(),
        any::<bool>(),
    )
        .prop_map(|(below, ignore_internal_cost, update, metrics)| HugeCostCase { below, ignore_internal_cost, update, metrics })
        .boxed()
}

/// runs in the child (`sv hugecost <json>`): prints one JSON line {status, msg}
pub fn huge_cost_child(c: &HugeCostCase) -> serde_json::Value {
    use stretto::TransparentKeyBuilder as T;
    let cost = i64::MAX - c.below as i64;
    let max_cost = 1000i64;
    let cache = match stretto::CacheBuilder::<u64, u64, T<u64>>::new_with_key_builder(64, max_cost, T::default())
        .set_ignore_internal_cost(c.ignore_internal_cost)
        .set_metrics(c.metrics)
        .finalize()
    {
        Ok(c) => c,
        Err(e) => return json!({"status": "harness", "msg": format!("cache could not be built: {}", e)}),
    };
    let fail = |m: String| json!({"status": "violation", "msg": m});
    if !matches!(cache.try_insert(1, 1, 1), Ok(true)) || cache.wait().is_err() || cache.get(&1).is_none() {
        return json!({"status": "harness", "msg": "set-up insert failed"});
    }
    if c.update {
        // a second resident: the running total then holds more than the entry being re-priced
        if !matches!(cache.try_insert(4, 4, 1), Ok(true)) || cache.wait().is_err() {
            return json!({"status": "harness", "msg": "set-up insert failed"});
        }
    }
    let key = if c.update { 1 } else { 2 };
    let r = cache.try_insert(key, 7, cost);
    if r.is_err() {
        return fail(format!("insert(k, v, {}) returned {:?}", cost, r));
    }
    if let Err(e) = cache.wait() {
        return fail(format!("wait() after insert(k, v, {}) failed: {}", cost, e));
    }
    let snap = cache.verif_snapshot();
    let sum: i64 = snap.costs.iter().map(|(_, c)| *c).fold(0i64, |a, b| a.saturating_add(b));
    if !c.update {
        // an entry whose own cost exceeds max_cost is never admitted
        if cache.get(&2).is_some() || snap.costs.iter().any(|(k, _)| *k == 2) {
            return fail(format!("an entry of cost {} was admitted into a cache of max_cost {} (charges {:?})", cost, max_cost, snap.costs));
        }
        if snap.used > max_cost || snap.used != sum {
            return fail(format!("after offering an entry of cost {}: charged total {} (max_cost {}), sum of charges {}", cost, snap.used, max_cost, sum));
        }
    } else if snap.used != sum && sum != i64::MAX {
        return fail(format!("after updating a resident entry to cost {}: charged total {} != sum of charges {}", cost, snap.used, sum));
    }
    // the cache goes on working
    let _ = cache.try_remove(&1);
    if !matches!(cache.try_insert(3, 3, 1), Ok(true)) {
        return fail(format!("after an entry of cost {} was offered, a cost-1 insert is not accepted", cost));
    }
    if let Err(e) = cache.wait() {
        return fail(format!("wait() failed afterwards: {}", e));
    }
    if cache.get(&3).is_none() {
        return fail(format!("after an entry of cost {} was offered{}, a cost-1 entry is not admitted into the otherwise empty cache", cost, if c.update { " as an update" } else { "" }));
    }
    json!({"status": "ok", "msg": ""})
}

pub fn run_huge_cost_probe(prop: &str, tier: &str, seed: u64, stats: &Stats, known: &[KnownEntry], known_hit: &mut Vec<String>) -> CheckOutcome {
    let n = if tier_is_thorough(tier) { 400 } else { 48 };
    let cases: Vec<HugeCostCase> = sample_values(&huge_cost_strategy(), n, seed.wrapping_mul(77).wrapping_add(5));
    let isz = crate::gen::item_size() as u64;
    let exe = std::env::current_exe().expect("current exe");
    let results: Vec<(HugeCostCase, String, String)> = std::thread::scope(|s| {
        let chunks: Vec<&[HugeCostCase]> = cases.chunks(cases.len().div_ceil(16).max(1)).collect();
        let hs: Vec<_> = chunks
            .into_iter()
            .map(|ch| {
                let exe = exe.clone();
                s.spawn(move || {
                    let mut out = Vec::new();
                    for c in ch {
                        let arg = serde_json::to_string(c).unwrap();
                        let internal = if c.ignore_internal_cost { 0 } else { isz };
                        let expected_overflow = if c.update { c.below < 2 * internal + 1 } else { c.below < internal };
                        // a child that does not answer in 10 s is stuck (it has milliseconds of work);
                        // where no arithmetic can overflow that is only believed after a second
                        // attempt with a minute's patience
                        let mut attempt = 0;
                        loop {
                            attempt += 1;
                            let limit = std::time::Duration::from_secs(if attempt == 1 { 10 } else { 60 });
                            let mut child = match std::process::Command::new(&exe).args(["hugecost", &arg]).stdout(std::process::Stdio::piped()).stderr(std::process::Stdio::null()).spawn() {
                                Ok(ch) => ch,
                                Err(e) => {
                                    out.push((c.clone(), "harness".to_string(), e.to_string()));
                                    break;
                                }
                            };
                            let t0 = std::time::Instant::now();
                            let mut done = false;
                            while t0.elapsed() < limit {
                                if let Ok(Some(_)) = child.try_wait() {
                                    done = true;
                                    break;
                                }
                                std::thread::sleep(std::time::Duration::from_millis(10));
                            }
                            if !done {
                                let _ = child.kill();
                                let _ = child.wait();
                                if !expected_overflow && attempt == 1 {
                                    continue;
                                }
                                out.push((c.clone(), "stuck".to_string(), format!("the child did not finish within {} s (a wait() that never returns: the processor is gone)", limit.as_secs())));
                                break;
                            }
                            let o = child.wait_with_output().map(|o| String::from_utf8_lossy(&o.stdout).into_owned()).unwrap_or_default();
                            let v: serde_json::Value = o.lines().rev().find_map(|l| serde_json::from_str(l).ok()).unwrap_or(json!({"status": "crash", "msg": "the child died without an answer (panic in the caller?)"}));
                            out.push((c.clone(), v["status"].as_str().unwrap_or("crash").to_string(), v["msg"].as_str().unwrap_or("").to_string()));
                            break;
                        }
                    }
                    out
                })
            })
            .collect();
        hs.into_iter().flat_map(|h| h.join().unwrap()).collect()
    });
    let mut violation = None;
    let mut harness = None;
    for (c, status, msg) in results {
        // cost arithmetic leaves the i64 range: cost + internal overhead, or (update) cost + running total
        // (new key: charge = cost + overhead; update of one of two cost-1 residents: the running
        // total becomes (1 + overhead) + cost + overhead)
        let internal = if c.ignore_internal_cost { 0 } else { isz };
        let overflows = if c.update { c.below < 2 * internal + 1 } else { c.below < internal };
        stats.case(hash_of(&c), overflows, || json!({"engine": "hugecost", "case": c}));
        stats.count("hugecost:cases");
        stats.count(if overflows { "hugecost:arithmetic_leaves_i64" } else { "hugecost:plain_oversize" });
        match status.as_str() {
            "ok" => {}
            "harness" => harness = Some(msg),
            _ => {
                if overflows {
                    if let Some(k) = known.iter().find(|k| k.signature == "huge_cost_arithmetic_overflow") {
                        *stats.known_hits.lock().entry(k.signature.clone()).or_insert(0) += 1;
                        let line = format!("KNOWN-FINDING: property={} {} ({})", prop, k.signature, k.what);
                        if !known_hit.contains(&line) {
                            known_hit.push(line);
                        }
                        continue;
                    }
                }
                if violation.is_none() {
                    let m = format!("[huge_cost] {:?} (cost i64::MAX - {}): {} - {}", c, c.below, status, msg);
                    let path = write_replay(prop, "hugecost", &c, &m);
                    violation = Some((m, path));
                }
            }
        }
    }
    if let Some(h) = harness {
        return CheckOutcome { violation: None, inconclusive: Some(format!("huge-cost probe: {}", h)) };
    }
    CheckOutcome { violation, inconclusive: None }
}

/// `sv replay C01 <hugecost file>`: one case in a child process; (status, message, arithmetic leaves i64)
pub fn replay_huge_cost(c: &HugeCostCase) -> (String, String, bool) {
    let isz = crate::gen::item_size() as u64;
    let internal = if c.ignore_internal_cost { 0 } else { isz };
    let overflows = if c.update { c.below < 2 * internal + 1 } else { c.below < internal };
    let exe = std::env::current_exe().expect("current exe");
    let arg = serde_json::to_string(c).unwrap();
    let mut child = match std::process::Command::new(&exe).args(["hugecost", &arg]).stdout(std::process::Stdio::piped()).stderr(std::process::Stdio::null()).spawn() {
        Ok(ch) => ch,
        Err(e) => return ("harness".into(), e.to_string(), overflows),
    };
    let t0 = std::time::Instant::now();
    while t0.elapsed() < std::time::Duration::from_secs(60) {
        if let Ok(Some(_)) = child.try_wait() {
            let o = child.wait_with_output().map(|o| String::from_utf8_lossy(&o.stdout).into_owned()).unwrap_or_default();
            let v: serde_json::Value = o.lines().rev().find_map(|l| serde_json::from_str(l).ok()).unwrap_or(json!({"status": "crash", "msg": "the child died without an answer"}));
            return (v["status"].as_str().unwrap_or("crash").to_string(), v["msg"].as_str().unwrap_or("").to_string(), overflows);
        }
        std::thread::sleep(std::time::Duration::from_millis(10));
    }
    let _ = child.kill();
    let _ = child.wait();
    ("stuck".into(), "the child did not finish within 60 s (a wait() that never returns: the processor is gone)".into(), overflows)
}
