//! E5: hand-written decoders from fuzzer bytes to structured cases (`derive_arbitrary` is not
//! available offline). Used by the cargo-fuzz targets in /verif/fuzz and by `sv replay` for raw
//! libFuzzer artifacts.
use crate::common::*;
use crate::comp::*;
use crate::gen::item_size;
use crate::lockstep::*;
use arbitrary::Unstructured;

fn pick<'a, T: Copy>(u: &mut Unstructured<'a>, xs: &[T]) -> T {
    let i = u.int_in_range(0..=xs.len() - 1).unwrap_or(0);
    xs[i]
}

fn b(u: &mut Unstructured) -> u8 {
    u.arbitrary::<u8>().unwrap_or(0)
}

const TTLS: [i64; 12] = [0, 0, 0, 1, 1_000_000, 500_000_000, NS - 1, NS, NS + 1, 1_500_000_000, 2 * NS, 5 * NS];

pub fn decode_case(data: &[u8]) -> Case {
    let mut u = Unstructured::new(data);
    let u = &mut u;
    let flags = b(u);
    let flavour = if flags & 1 == 1 { Flavour::Async } else { Flavour::Sync };
    let mode = if flags & 2 == 2 { Mode::Schedule } else { Mode::Quiescent };
    let ignore_internal_cost = flags & 4 == 4;
    let metrics = flags & 8 == 8;
    let periodic = flags & 0x30 == 0x30;
    let collide = flags & 0xC0 == 0xC0;
    let internal = if ignore_internal_cost { 0 } else { item_size() };
    let nkeys = 2 + (b(u) % 6) as u64;
    let layout = b(u) % 5;
    let keys: Vec<(u64, u64)> = (0..nkeys)
        .map(|k| {
            if collide {
                (k / 2 + 1, k + 1)
            } else {
                match layout {
                    0 => (k + 1, 0),
                    1 => ((k + 1) * 256, 0),
                    2 => (k.wrapping_mul(0x9E37_79B9_7F4A_7C15) | 1, 0),
                    3 => (k + 1, k * 7 + 3),
                    _ => (u64::MAX - k, k * 13 + 1),
                }
            }
        })
        .collect();
    let capsel = b(u);
    let max_cost = if capsel % 4 == 0 {
        1i64 << 40
    } else if internal > 0 {
        (1 + (capsel as i64 / 4) % 5) * internal + (b(u) as i64 % (internal + 1))
    } else {
        1 + (capsel as i64 / 4) % 60
    };
    let cfg = Config {
        flavour,
        mode,
        max_cost,
        num_counters: pick(u, &[1usize, 2, 3, 8, 16, 33, 64]),
        buffer_size: pick(u, &[1usize, 2, 3, 5, 8, 64]),
        buffer_items: pick(u, &[0usize, 1, 2, 3, 5, 64]),
        ignore_internal_cost,
        metrics,
        validator: pick(u, &[Validator::Always, Validator::Always, Validator::Never, Validator::TagGe, Validator::TagEven, Validator::TagDiffers]),
        keys,
        start_ns: pick(u, &[0i64, 1, NS - 1, 500_000_000]),
        tick: if periodic { Some((pick(u, &[100_000_000i64, 250_000_000, 500_000_000, NS, 1_500_000_000, 2 * NS, 3 * NS]), (b(u) as i64) * 7_000_000)) } else { None },
        order: capsel % 10,
        defaults: false,
        patience_ms: 0,
    };
    let room = (max_cost - internal).clamp(1, 1 << 20);
    let cost = |u: &mut Unstructured| -> i64 {
        match b(u) % 10 {
            0 | 1 => 0,
            2..=5 => 1 + (b(u) % 5) as i64,
            6 => (room / 2).max(1),
            7 => room,
            8 => room + 1,
            _ => (room - 1).max(1),
        }
    };
    let tag = |u: &mut Unstructured| -> u32 {
        let x = b(u);
        if x < 230 {
            (x % 10) as u32
        } else {
            room as u32 + (x as u32 % 2)
        }
    };
    let mut ops = Vec::new();
    let mut budget = 80;
    while !u.is_empty() && budget > 0 {
        budget -= 1;
        let t = b(u);
        let k = (b(u) as u64) % nkeys;
        let op = match t % 32 {
            0..=7 => Op::Insert { k, cost: cost(u), ttl: pick(u, &TTLS), tag: tag(u) },
            8 => Op::InsertIfPresent { k, cost: cost(u), tag: tag(u) },
            9 | 10 => Op::Remove { k },
            11..=13 => Op::Get { k },
            14 => Op::GetMut { k, write: if b(u) % 2 == 0 { Some(tag(u)) } else { None } },
            15 => {
                if b(u) % 3 == 0 {
                    Op::GetHold { k, dt: pick(u, &[0i64, 1, 1_000_000, NS - 1, NS, NS + 1, 2 * NS, 10 * NS]) }
                } else {
                    Op::GetTtl { k }
                }
            }
            16 => Op::UpdateMaxCost { m: pick(u, &[max_cost, (max_cost / 2).max(1), max_cost.saturating_mul(2), 1, (max_cost - internal).max(1)]) },
            17 => Op::Clear { pre: (b(u) % 3) as usize },
            18 => Op::Wait,
            19 | 20 => Op::Advance(Adv::Ns(pick(u, &[1i64, 1_000_000, 100_000_000, 500_000_000, NS - 1, NS, 1_500_000_000, 2 * NS, 5 * NS, 61 * NS]))),
            21 => Op::Advance(Adv::NextSecond(pick(u, &[-1i64, 0, 1]))),
            22 => Op::Advance(Adv::Deadline(k, pick(u, &[-1i64, 0, 1, NS - 1, NS, NS + 1]))),
            23 => Op::Advance(Adv::OldDeadline(b(u), pick(u, &[-1i64, 0, 1, 500_000_000]))),
            24 | 25 => Op::ProcInsert,
            26 => Op::ProcClear,
            27 | 28 => Op::Tick,
            29 => Op::PolicyStep,
            30 => Op::Drain { clear_first: b(u) % 2 == 0 },
            _ => {
                if mode == Mode::Schedule {
                    let sites: [(&str, u8); 13] = [
                        ("proc.new.after_policy_add", 0),
                        ("proc.new.after_store_insert", 0),
                        ("proc.new.victim", 0),
                        ("proc.update", 0),
                        ("proc.delete.after_policy_remove", 0),
                        ("remove.after_store_remove", 1),
                        ("insert.after_store_update", 2),
                        ("cleanup.after_check", 3),
                        ("cleanup.after_policy_remove", 3),
                        ("proc.clear.after_drain", 4),
                        ("proc.clear.after_policy_clear", 4),
                        ("em.clear.before", 4),
                        ("em.clear.after", 4),
                    ];
                    let (at, kind) = pick(u, &sites);
                    let then = match kind {
                        0 => Op::ProcInsert,
                        1 => Op::Remove { k },
                        2 => Op::Insert { k, cost: cost(u), ttl: pick(u, &TTLS), tag: tag(u) },
                        3 => Op::Tick,
                        _ => Op::Clear { pre: (b(u) % 3) as usize },
                    };
                    let na = 1 + b(u) % 3;
                    let mut actions = Vec::new();
                    for _ in 0..na {
                        let k2 = (b(u) as u64) % nkeys;
                        actions.push(match b(u) % 6 {
                            0 | 1 => Op::Insert { k: k2, cost: cost(u), ttl: pick(u, &TTLS), tag: tag(u) },
                            2 => Op::Remove { k: k2 },
                            3 => Op::Get { k: k2 },
                            4 => Op::ProcInsert,
                            _ => Op::Tick,
                        });
                    }
                    Op::Interpose { at: at.to_string(), nth: (b(u) % 2) as usize, actions, then: Box::new(then) }
                } else {
                    Op::Tick
                }
            }
        };
        ops.push(op);
    }
    Case { cfg, ops }
}

/// which estimator a byte string drives, and the decoded case
pub enum EstCase {
    Sketch(SketchCase),
    Tiny(TinyCase),
    Bloom(BloomCase),
    Policy(PolicyCase),
}

fn palette(u: &mut Unstructured) -> Vec<u64> {
    let fam = b(u) % 6;
    let n = 1 + (b(u) % 7) as usize;
    let mut v: Vec<u64> = (0..n)
        .map(|_| {
            let x = u.arbitrary::<u64>().unwrap_or(0);
            match fam {
                0 => x,
                1 => x % 32,
                2 => (x << 32) | 0xABCD,
                3 => 0xABCD_0000_0000_0000 | (x & 0xFFFF),
                4 => (x % 64 + 1) << (x >> 58),
                _ => [0u64, u64::MAX, 1, u64::MAX - 1, 1 << 63, 1 << 32][(x % 6) as usize],
            }
        })
        .collect();
    v.sort_unstable();
    v.dedup();
    v
}

fn width(u: &mut Unstructured) -> u64 {
    let x = b(u);
    if x < 200 {
        1 + (x as u64 % 70)
    } else {
        [100u64, 127, 128, 129, 1000, 4096][(x % 6) as usize]
    }
}

pub fn decode_est(data: &[u8]) -> EstCase {
    let mut u = Unstructured::new(data);
    let u = &mut u;
    match b(u) % 4 {
        0 => {
            let width = width(u);
            let hashes = palette(u);
            let mut ops = Vec::new();
            while !u.is_empty() && ops.len() < 80 {
                let t = b(u);
                ops.push(match t % 16 {
                    0..=9 => SkOp::Inc(b(u)),
                    10..=12 => SkOp::IncMany(b(u), 2 + b(u) % 18),
                    13 | 14 => SkOp::Reset,
                    _ => SkOp::Clear,
                });
            }
            EstCase::Sketch(SketchCase { width, hashes, ops, epoch_s: b(u) as u32 })
        }
        1 => {
            let num_counters = width(u) as usize;
            let hashes = palette(u);
            let mut ops = Vec::new();
            while !u.is_empty() && ops.len() < 80 {
                let t = b(u);
                ops.push(match t % 16 {
                    0..=8 => TlOp::Inc(b(u)),
                    9..=12 => TlOp::IncMany(b(u), 2 + b(u) % 22),
                    13 | 14 => TlOp::Batch((0..(b(u) % 12)).map(|_| b(u)).collect()),
                    _ => TlOp::Clear,
                });
            }
            EstCase::Tiny(TinyCase { num_counters, hashes, ops, epoch_s: b(u) as u32 })
        }
        2 => {
            let capx = b(u);
            let cap = if capx < 128 { 1 + (capx as usize % 70) } else { [1usize, 2, 63, 64, 65, 127, 128, 129, 255, 256, 257, 511, 512, 513, 1000, 1024, 4096, 5000][(capx % 18) as usize] };
            let rate_milli = [1u32, 10, 50, 100, 300][(b(u) % 5) as usize];
            let mut hashes = palette(u);
            if b(u) % 2 == 0 {
                for _ in 0..(8 + b(u) % 24) {
                    hashes.push(u.arbitrary::<u64>().unwrap_or(1));
                }
            }
            let mut ops = Vec::new();
            while !u.is_empty() && ops.len() < 100 {
                let t = b(u);
                ops.push(match t % 12 {
                    0..=5 => BlOp::Add(b(u)),
                    6..=9 => BlOp::ContainsOrAdd(b(u)),
                    10 => BlOp::Reset,
                    _ => BlOp::Clear,
                });
            }
            EstCase::Bloom(BloomCase { cap, rate_milli, hashes, ops, fp_seed: 0, fp_aligned: b(u) % 2 == 0 })
        }
        _ => {
            let num_counters = [4usize, 8, 16, 64, 256, 1000][(b(u) % 6) as usize];
            let nres = (b(u) % 13) as usize;
            let mut residents: Vec<(u64, i64)> = Vec::new();
            for _ in 0..nres {
                let k = 1 + (b(u) % 39) as u64;
                let c = 1 + (b(u) % 11) as i64;
                if !residents.iter().any(|r| r.0 == k) {
                    residents.push((k, c));
                }
            }
            let total: i64 = residents.iter().map(|r| r.1).sum();
            let max_cost = (total + (b(u) % 20) as i64).max(1);
            let nb = (b(u) % 12) as usize;
            let batches: Vec<Vec<u8>> = (0..nb).map(|_| (0..(b(u) % 10)).map(|_| b(u)).collect()).collect();
            let nu = (b(u) % 3) as usize;
            let updates: Vec<(u8, i64)> = (0..nu).map(|_| (b(u), 1 + (b(u) % 29) as i64)).collect();
            let new_max = if b(u) % 5 == 0 { Some(1 + (b(u) % 59) as i64) } else { None };
            let incoming = (1 + (b(u) % 47) as u64, 1 + (b(u) % 29) as i64);
            EstCase::Policy(PolicyCase { num_counters, max_cost, residents, batches, updates, new_max, incoming, epoch_s: b(u) as u32 })
        }
    }
}

pub fn run_est(c: &EstCase) -> (&'static str, Result<(), String>) {
    match c {
        EstCase::Sketch(c) => ("C13", run_sketch(c).map(|_| ())),
        EstCase::Tiny(c) => ("C13", run_tiny(c).map(|_| ())),
        EstCase::Bloom(c) => ("C14", run_bloom(c).map(|_| ())),
        EstCase::Policy(c) => ("C07", run_policy(c).map(|_| ())),
    }
}
