#!/bin/bash
# usage: tools/eval_seed.sh <ID> [checks...]   -- confirm a delivered mutation in its scratch worktree, then run checks against it in /repo
set -u
ID=$1; shift
WT=${WT:-/tmp/wt-$ID}
D=$WT/deliver
OUT=/verif/seeded/${SEED:-$ID}
mkdir -p $OUT
cp -r $D/* $OUT/ 2>/dev/null
export CARGO_TARGET_DIR=$WT/target CARGO_NET_OFFLINE=true
cd $WT
git checkout -q -- src 2>/dev/null
git checkout -q -- . ; git clean -fdq -e target -e deliver
# copy demo files into place
DEMO_CMD="bash $D/demo_cmd.txt"
verdict() { if grep -qE "test result: FAILED|panicked at|error: test failed" $1; then echo "demo: FAILS"; elif grep -qE "^error" $1; then echo "demo: DID NOT RUN"; else echo "demo: passes"; fi; }
mkdir -p tests; for f in $D/*.rs $D/tests/*.rs; do [ -f "$f" ] && cp $f tests/; done
echo "== demo on original: $DEMO_CMD"
( eval "$DEMO_CMD" ) > $OUT/demo_orig.log 2>&1; echo "exit=$? $(verdict $OUT/demo_orig.log)" | tee -a $OUT/demo_orig.log
git apply $D/patch.diff || { echo "PATCH DOES NOT APPLY"; exit 3; }
echo "== tests with patch"
cargo test --workspace --no-fail-fast --offline 2>&1 | grep -E "^test result" | tee $OUT/tests_patched.log
echo "== demo with patch"
( eval "$DEMO_CMD" ) > $OUT/demo_patched.log 2>&1; echo "exit=$? $(verdict $OUT/demo_patched.log)" | tee -a $OUT/demo_patched.log
git checkout -q -- src
cd /verif
unset CARGO_TARGET_DIR
echo "== checks against mutated /repo"
git -C /repo apply $D/patch.diff || { echo "PATCH DOES NOT APPLY TO /repo"; exit 3; }
for c in "$@"; do
  timeout 1200 ./check $c quick > $OUT/check_$c.log 2>&1; rc=$?
  echo "$c exit=$rc $(grep -E 'VIOLATION|INCONCLUSIVE|^OK' $OUT/check_$c.log | head -2 | tr '\n' ' ')"
done
git -C /repo checkout -- .
git -C /repo status --short | head -3
