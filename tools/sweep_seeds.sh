#!/bin/bash
# Re-run each seeded change against the current checks: apply to /repo, ./check <its property> quick, undo.
# usage: tools/sweep_seeds.sh [seed dir names...]   (default: all of /verif/seeded)
cd /verif
[ -n "$(git -C /repo status --short)" ] && { echo "/repo is not clean"; exit 2; }
SEEDS="$@"; [ -z "$SEEDS" ] && SEEDS=$(ls seeded)
for s in $SEEDS; do
  d=seeded/$s
  prop=$(python3 -c "import json;print(json.load(open('$d/meta.json'))['breaks_property'])")
  if ! git -C /repo apply --check $PWD/$d/patch.diff 2>/dev/null; then echo "$s: PATCH NO LONGER APPLIES"; continue; fi
  git -C /repo apply $PWD/$d/patch.diff
  if [ -n "${NOREPLAY:-}" ]; then export VERIF_NO_REPLAY=1; fi
  timeout 1500 ./check $prop quick > $d/sweep_$prop.log 2>&1; rc=$?
  git -C /repo checkout -- .
  line=$(grep -E "^counterexample" $d/sweep_$prop.log | head -1 | cut -c1-160)
  echo "$s ($prop): exit=$rc $line"
  python3 - <<PY
import json
m=json.load(open('$d/meta.json'))
m.setdefault('sweeps',{})['$prop'+('-generation-only' if '${NOREPLAY:-}' else '')]={'exit':$rc,'caught':$rc==1,'counterexample':"""$line"""}
m['caught_by_own_property_check']=($rc==1)
json.dump(m,open('$d/meta.json','w'),indent=1)
PY
done
git -C /repo status --short | head -2
