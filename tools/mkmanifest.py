#!/usr/bin/env python3
"""Regenerates /verif/MANIFEST.json from the table below (kept next to the checks it describes)."""
import json, subprocess, os
V = os.path.dirname(os.path.dirname(os.path.abspath(__file__)))
props = [json.loads(l) for l in open(os.path.join(V, 'properties.jsonl'))]
ids = [p['id'] for p in props]

LS = "lock-step interpreter over a parked (manually stepped) cache under a virtual clock, run against a reference model (E1)"
checks = {
 "C01": ("model-based stateful PBT (proptest): lock-step model + cost-bound invariants", LS+"; predicates: charged total == sum of charges at every step, every admission restores total <= max_cost, oversize items never admitted, max_cost()/update_max_cost() effective; plus real-thread stress with a monitor thread; plus a probe with generated costs at the top of the i64 range, one child process per case (known finding D17 is reported there as a KNOWN-FINDING line)", "6.C01"),
 "C02": ("model-based stateful PBT (proptest): lock-step model + value-tag history oracle", LS+"; every lookup compared with the model (exact when quiescent), values uniquely tagged so a foreign, unaccepted, called-back or pre-remove/pre-clear value is recognised; plus real-thread stress with inline tag checks", "6.C02"),
 "C03": ("model-based stateful PBT (proptest) under a virtual clock", LS+"; exact deadlines: served-after-TTL, remaining ttl equality (get_ttl and ValueRef::ttl), no-TTL entries never lost to time, deadline replacement on re-insert", "6.C03"),
 "C04": ("model-based stateful PBT (proptest): differential against an exact map with deadlines", LS+" with a buffer that never fills, ample capacity (a third) or tight capacity judged while the combined cost has never exceeded max_cost; every key looked up, no reject, evict only for expired entries, admitted-with-room stays", "6.C04"),
 "C05": ("model-based stateful PBT (proptest) with a periodic virtual-time cleanup schedule", LS+"; periodic ticks (100ms..3s) on the virtual time line, also over a non-empty insert buffer and with client actions interposed inside the sweep: overdue entries must be reclaimed, unexpired ones never, exactly one on_evict with value and charge", "6.C05"),
 "C06": ("stateful PBT (proptest): schedule-mode lock-step + yield-point interposition, invariant at quiescence", LS+" in schedule mode plus E2 interposition at named yield points; resident keys == charged keys == len() at every quiescent point; plus real-thread stress", "6.C06"),
 "C07": ("PBT (proptest) over the policy's add(): validity predicates from estimates + per-round observer", "component engine (E4) on a parked policy through the verif facade", "6.C07"),
 "C08": ("model-based stateful PBT (proptest): conservation law over uniquely tagged values and a recording callback", LS+"; at every quiescent point each accepted value is resident or was handed to exactly one callback of the right kind; plus real-thread stress; plus a scale engine (one cache, more than 100 000 admissions, then a shrunken budget)", "6.C08"),
 "C09": ("model-based stateful PBT (proptest) over a family of validators", LS+"; insert_if_present on absent keys changes nothing, vetoed writes leave value and deadline untouched (model-based, metamorphic twin without the vetoed writes, and a model-free in-place-replacement invariant that also runs on colliding key tables)", "6.C09"),
 "C11": ("model-based stateful PBT (proptest): clear() with buffered work, differential against an emptied model", LS+"; after clear() nothing written before is retrievable, counters restart, the model continues from empty", "6.C11"),
 "C13": ("PBT (proptest): differential against ideal exact counters with saturation and halving", "component engine (E4) on CountMinSketch and TinyLFU through the verif facade; inside the cache: lock-step interpreter with a parked policy worker (estimate >= recorded, aging window position) and real-thread Lookups stress", "6.C13"),
 "C14": ("PBT (proptest): membership oracle + statistical false-positive bound", "component engine (E4) on the bloom filter through the verif facade; inside the cache: lock-step interpreter with a parked policy worker and a read-only view of the doorkeeper (no false negatives in the window, few false positives)", "6.C14"),
 "C15": ("model-based stateful PBT (proptest) with a parked policy worker", LS+"; ring-buffer batching, kept/dropped accounting and estimate >= lookups recorded since the last aging reset", "6.C15"),
 "C16": ("model-based stateful PBT (proptest): charge formula", LS+"; per-key charge == explicit cost or Coster value, plus internal overhead unless ignored; callbacks report the charge", "6.C16"),
 "C17": ("model-based stateful PBT (proptest): conservation laws over metrics + Histogram PBT", LS+"; all eleven counters and the histogram count compared with the model at every step; Histogram component generator", "6.C17"),
 "C18": ("PBT (proptest): identity/determinism of key builders + lock-step model with forced index collisions", LS+" with a key builder mapping pairs of keys to one index; key-builder component generator", "6.C18"),
}
extra = {}
try:
    extra = json.load(open(os.path.join(V, 'tools', 'manifest_extra.json')))
except Exception:
    pass
for k, v in extra.get('checks', {}).items():
    checks[k] = tuple(v)

not_applicable_reasons = extra.get('not_applicable', {})
repo_log = subprocess.check_output(['git', '-C', '/repo', 'log', '--format=%h %s']).decode().splitlines()
hook_commits = [l.split()[0] for l in repo_log if 'verif hooks' in l]

m = {
 "version": 1,
 "setup_cmd": "./check --build",
 "hooks": {
  "guard": "transparencies_stretto_verif",
  "enable": "rustc --cfg transparencies_stretto_verif (set through build.rustflags in /verif/harness/.cargo/config.toml; /repo is a path dependency of the harness)",
  "baseline_off_cmd": "cd /repo && cargo test --workspace --no-fail-fast --offline",
  "source_commits": hook_commits,
  "add_only": True,
 },
 "engines": [
  {"name": "lockstep", "path": "harness/src/lockstep.rs", "serves_properties": [i for i in ids if i in ("C01","C02","C03","C04","C05","C06","C08","C09","C10","C11","C13","C14","C15","C16","C17","C18","C19","C20")], "kind_free_text": "E1/E2: proptest-generated (config x op sequence) cases executed in lock-step on a parked sync/async cache and on a reference model, virtual clock by clock_gettime interposition"},
  {"name": "component", "path": "harness/src/comp.rs", "serves_properties": ["C02","C03","C04","C07","C08","C09","C13","C14","C16","C17","C18","C20"], "kind_free_text": "E4: proptest generators driving the crate-private estimators and the policy through the verif facade; E4b: generated quiescent histories on caches of six value types (unit type to heap values) built with default everything, against an exact map"},
  {"name": "stress", "path": "harness/src/stress.rs", "serves_properties": ["C01","C02","C04","C05","C06","C08","C09","C10","C11","C12","C13","C15","C16","C17","C18","C19","C20"], "kind_free_text": "E3: generated multi-thread scripts against caches with real workers (sync, tokio mt/ct, async-std, thread-per-task), in child processes; kinds Invariants, Barrier, WaitRace, Close, Config, Reclaim, Validated; history invariants inline and at quiescence, state evidence for hangs"},
  {"name": "fuzz", "path": "fuzz/", "serves_properties": ["C01","C02","C03","C04","C05","C06","C07","C08","C09","C11","C13","C14","C15","C16","C17","C18"], "kind_free_text": "E5: cargo-fuzz/libFuzzer targets `lockstep` and `estimators` behind hand-written arbitrary::Unstructured decoders, oracle inside the target, run by the thorough tier (VERIF_FUZZ_SECS, default 90 s)"},
 ],
 "checks": [],
 "notes": "Every check is `./check <ID> <quick|thorough>`; exit 0 held, 1 with a VIOLATION line, 2 inconclusive/infrastructure. Replays: ./check <ID> --replay <file>. Known findings: known_findings.json (one open entry: D17, C01 - the C01 check prints a KNOWN-FINDING line for it and exits 0; all other entries are `fixed`).",
 "not_applicable": [],
}
for i in ids:
    if i in checks:
        tech, text, ref = checks[i]
        m["checks"].append({
          "property_id": i,
          "quick_cmd": "./check %s quick" % i,
          "thorough_cmd": "./check %s thorough" % i,
          "evidence_file": "/verif/evidence/%s.json" % i,
          "replay_cmd_template": "./check %s --replay {path}" % i,
          "engine": "sv (harness/)",
          "level_claimed": {"category": "exploration", "text": text, "design_ref": ref},
          "level_note": "Generated search, not proof: holds on every generated case of this run. Every run starts with a replay tier (saved counterexamples in findings/ and regress/); the thorough tier multiplies the case counts and, where a fuzz target applies, adds a libFuzzer campaign. Trusted base: the reference model/oracles in /verif/harness, the cfg-guarded hooks in /repo (parked processors, snapshots, yield points), proptest, libFuzzer, and the clock_gettime interposition.",
          "technique": tech,
        })
    else:
        m["not_applicable"].append({"property_id": i, "reason": not_applicable_reasons.get(i, "check not built yet (build in progress, see DESIGN.md section 6)")})
json.dump(m, open(os.path.join(V, 'MANIFEST.json'), 'w'), indent=1)
print("checks:", len(m["checks"]), "not_applicable:", [x["property_id"] for x in m["not_applicable"]])
