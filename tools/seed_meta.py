#!/usr/bin/env python3
import json,sys,os,re,glob
sid=sys.argv[1]; prop=sys.argv[2]; needs=sys.argv[3]; 
d=f'/verif/seeded/{sid}'
res={}
for f in sorted(glob.glob(d+'/check_*.log')):
    c=os.path.basename(f)[6:-4]
    t=open(f).read()
    if 'VIOLATION' in t: res[c]='caught: '+[l for l in t.splitlines() if l.startswith('counterexample')][:1][0][:300] if [l for l in t.splitlines() if l.startswith('counterexample')] else 'caught'
    elif 'INCONCLUSIVE' in t: res[c]='inconclusive'
    elif re.search(r'^OK',t,re.M): res[c]='missed (check stayed green)'
    else: res[c]='?'
tests=open(d+'/tests_patched.log').read().strip().splitlines() if os.path.exists(d+'/tests_patched.log') else []
meta={"breaks_property":prop,"needs_to_manifest":needs,
 "confirmed":{"existing_tests_with_patch":tests[:1],"demo_on_original":open(d+'/demo_orig.log').read().strip().splitlines()[-1:], "demo_with_patch":open(d+'/demo_patched.log').read().strip().splitlines()[-1:]},
 "what_was_run":["tools/eval_seed.sh (seed "+sid+") "+" "+" ".join(res.keys())+"  (scratch worktree: demo on original, git apply, repo tests, demo; then git -C /repo apply, ./check <ID> quick, git -C /repo checkout -- .)"],
 "checks":res}
json.dump(meta,open(d+'/meta.json','w'),indent=1)
print(json.dumps(meta,indent=1)[:1200])
