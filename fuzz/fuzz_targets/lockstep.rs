#![no_main]
use libfuzzer_sys::fuzz_target;

fuzz_target!(|data: &[u8]| {
    sv::checks::fuzz_lockstep(data);
});
